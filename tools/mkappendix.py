#!/usr/bin/env python3
"""Regenerate Appendix A of DESIGN.md (harness tables) from the harness registry.  Run: ./.venv/bin/python tools/mkappendix.py (from /verif)."""
import importlib, os, sys
ROOT = os.path.dirname(os.path.dirname(os.path.abspath(__file__)))
sys.path[:0] = [os.environ.get('OPTILAND_REPO', '/repo'), ROOT]
from symopt.harness import REGISTRY
props = ['C%02d' % i for i in range(1, 21)]
for p in props:
    importlib.import_module('checks.' + p)
out = ['## Appendix A. Harness tables (generated from the registry by `tools/mkappendix.py`; `decides` and `bounds` are the strings written into the evidence)', '']
for p in props:
    out += [f'**{p}**', '', '| harness | cases (quick/thorough) | decides | bounds |', '|---|---|---|---|']
    for hid, h in REGISTRY.items():
        if h['prop'] != p:
            continue
        tiers = h.get('tiers', ('quick', 'thorough'))
        nq = len(h['cases']('quick')) if 'quick' in tiers else 0
        nt = len(h['cases']('thorough')) if 'thorough' in tiers else 0
        esc = lambda t: ' '.join(str(t).split()).replace('|', '\\|')
        out.append(f"| {h['name']} | {nq}/{nt} | {esc(h.get('doc', ''))} | {esc(h.get('bounds', ''))} |")
    out.append('')
path = os.path.join(ROOT, 'DESIGN.md')
s = open(path).read()
i = s.index('## Appendix A.')
open(path, 'w').write(s[:i] + '\n'.join(out))
print('appendix: %d harnesses' % len(REGISTRY))
