#!/bin/bash
# tools/seedconfirm.sh <seed dir> <name e.g. C04-a>: re-confirm a seeded change independently in a scratch worktree
# (full test suite passes with it; demo fails with it and passes without), then store it under /verif/seeded/<name>/.
set -u
seed=$(readlink -f "$1"); name=$2
wt=/tmp/wt_confirm_$name
git -C /repo worktree add -q --detach "$wt" HEAD || exit 9
cleanup() { git -C /repo worktree remove --force "$wt" 2>/dev/null; }
trap cleanup EXIT
cd "$wt"
git apply --check "$seed/patch.diff" || { echo "$name: PATCH DOES NOT APPLY to current HEAD"; exit 1; }
PYTHONPATH=$wt /venv/bin/python "$seed/demo.py" > /tmp/confirm_$name.clean.log 2>&1; clean_rc=$?
git apply "$seed/patch.diff"
PYTHONPATH=$wt /venv/bin/python "$seed/demo.py" > /tmp/confirm_$name.mut.log 2>&1; mut_rc=$?
PYTHONPATH=$wt /venv/bin/python -m pytest -q -p no:cacheprovider --timeout=900 -x > /tmp/confirm_$name.tests.log 2>&1; tests_rc=$?
summary=$(tail -1 /tmp/confirm_$name.tests.log | cut -c1-120)
echo "$name: demo clean rc=$clean_rc, demo mutated rc=$mut_rc, tests rc=$tests_rc ($summary)"
if [ $clean_rc -eq 0 ] && [ $mut_rc -ne 0 ] && [ $tests_rc -eq 0 ]; then
  d=/verif/seeded/$name; mkdir -p $d
  cp "$seed/patch.diff" "$seed/demo.py" $d/
  /venv/bin/python - "$seed/meta.json" "$d/meta.json" "$name" "$summary" "$(git -C /repo log --format=%h -1)" <<'PY'
import json,sys
src,dst,name,summary,head=sys.argv[1:6]
try: m=json.load(open(src))
except Exception: m={}
m['confirmed_by_verifier']={'repo_head':head,'full_test_suite_with_change':summary,'demo_with_change':'fails (non-zero exit)','demo_without_change':'passes (exit 0)','how':'tools/seedconfirm.sh in a scratch worktree'}
json.dump(m,open(dst,'w'),indent=1)
PY
  echo "$name: stored in $d"
else
  echo "$name: NOT KEPT"
fi
