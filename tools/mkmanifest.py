#!/usr/bin/env python3
"""Regenerate MANIFEST.json from the table below + the harness registry (run from /verif)."""
import json, os, sys
ROOT = os.path.dirname(os.path.dirname(os.path.abspath(__file__)))
sys.path[:0] = ['/repo', ROOT]

CLAIMS = {
    # id: (level text, level note)
    'C04': ('Bounded symbolic model checking of the real Paraxial / Surface._trace_paraxial code: every cardinal-point, pupil, '
            'marginal/chief-ray, invariant and linearity obligation is an SMT query over all radii, thicknesses and indices '
            '(K<=3 surfaces quick, 4 thorough; stop first/middle/last; mirrors), decided unsat by z3/cvc5 against an independent '
            'ABCD-matrix oracle; one-surface step contract extends the recurrence to any K by induction.',
            'floats modelled as exact reals + IEEE specials; bounds per harness in the evidence; oracle = 2x2 matrices on (y, nu) with index sign reversal at mirrors'),
}
CLAIMS.update({
    'C01': ('Bounded symbolic model checking of the real Optic / SurfaceGroup / SurfaceFactory / Pickup / Solve / Variable code: '
            'building (K<=4 quick, 6 thorough; every surface type; symbolic stop flags) and ONE edit step from an arbitrary K=3 prescription '
            '(inductive step => histories of any length), pairs of edits, pickups, solves; read-back and frame conditions are SMT queries over '
            'all numeric arguments, decided unsat. Several marginal-ray-height solves in one lens all hold after one update().',
            'floats as exact reals + IEEE specials; induction over history length is a paper argument on top of the solver-decided step; '
            'K bounded as stated; catalogue materials not involved (IdealMaterial with symbolic index)'),
    'C02': ('Bounded symbolic model checking of RealRays.refract/reflect, CoordinateSystem.localize/globalize, Plane/StandardGeometry '
            'distance and normal, Surface._trace_real orchestration and a 2-surface wiring run: per-surface step contracts from an arbitrary '
            'incoming ray (unit direction, any normal, any indices) are SMT queries (vector Snell law, unit norm, half-space, on-surface, '
            'nearest root, OPD), decided unsat; induction over surfaces lifts them to any lens of such surfaces. Iterative (Newton-Raphson) surfaces: loop contract of the intersection - a valid ray ends within tolerance or after max_iter steps, also in a bundle with a lost ray (max_iter = 2, one ray geometry in the quick tier). Normals of xy-polynomial (non-square coefficient arrays) and even-asphere surfaces are the gradient of the documented sag.',
            'floats as exact reals; one ray per trace; conic step contract for hits on the vertex sheet; Newton-Raphson geometries only in the thorough tier with a bounded unrolling; tangent rays (d.n = 0) excluded'),
})
CLAIMS['C03'] = ('Bounded symbolic model checking of the real RayGenerator / Optic.trace / trace_generic / FieldGroup.get_vig_factor / distribution code: '
    'every legal aperture x field x object x telecentric combination on K<=2 lenses (all numbers symbolic, pupil position from an independent ABCD oracle): '
    'origin, field angle, collinearity with the pupil point, unit direction towards the lens, intensity/OPD/wavelength are SMT queries decided unsat; every illegal '
    'combination must raise ValueError on all paths; distributions: count, unit disk, shrink-only vignetting for symbolic factors. Curved (spherical) object surfaces: height fields start ON the object surface. The random distribution is executed with a stubbed generator (arbitrary r, theta). Field lists whose largest field is negative.',
    'floats as exact reals; thickness >= 0; aperture value yields a positive EPD; fields along y; distribution sizes <= 8 (12 thorough); random generator stubbed')
CLAIMS['C14'] = ('Bounded symbolic model checking of the real OptimizationProblem / OptimizerGeneric / LeastSquares / DualAnnealing / DifferentialEvolution / Variable / Operand code '
    'against a nondeterministic stub of scipy.optimize (documented contract: evaluates the objective at x0 and at <=2 arbitrary points inside the bounds it was given, returns the best; '
    'workers=-1 evaluates on copies): post-state = result.x, merit = result.fun, not worse than start, inside bounds, pickups/solves satisfied, undo restores; merit formula; every variable type is a faithful handle with bounds in value units. All SMT queries over symbolic lens numbers, evaluation points, targets, weights; operands are uninterpreted functions. The object distance as a thickness variable.',
    'scipy optimisers are stubbed by their contract (that they meet it is not checked); operands uninterpreted; <=3 evaluations, <=2 variables, sequences <=4; floats as reals')
CLAIMS['C16'] = ('Bounded symbolic model checking of RadialAperture.clip, RealRays.propagate (Beer-Lambert), SimpleCoating, Surface._trace_real and a 2-surface Optic: '
    'step contract from an arbitrary ray/intensity: zero outside the aperture in the surface frame, exp argument -4 pi k d 1e3/lambda, coating factor, nothing else; 0<=i\'<=i; records = ray intensity; RayFan intensities = traced ones (UF tracer). Apertures that were rescaled, re-assigned or reloaded clip at their current radii.',
    'exp axiomatised (positivity, monotonicity, congruence); geometry of the step uninterpreted; planes in the wiring run; floats as reals')
CLAIMS['C15'] = ('Bounded symbolic model checking of the real Tolerancing / Perturbation / samplers / SensitivityAnalysis.run / MonteCarlo.run / CompensatorOptimizer code: '
    'rows = operands of (nominal + recorded perturbation [+ recorded compensation]), nominal perturbation => nominal values, lens nominal after run() and reset(), sampler cycling and seeded reproducibility; '
    'operands are uninterpreted functions, sampler draws and compensator evaluation points symbolic; all obligations SMT queries decided unsat.',
    'numpy RNG stubbed (seeded = function of seed and draw index); scipy stubbed by contract; pandas.DataFrame replaced by a list in symbolic mode; <=2 perturbations x <=3 trials')
CLAIMS['C13'] = ('Bounded symbolic model checking of frame conditions on the real code: caller-owned arrays keep their values across trace/trace_generic (symbolic vignetting), '
    'prescription snapshot and to_dict() unchanged by paraxial / aberration / trace queries, repeated query = same terms, third call of (A,B,A) equals the first (no stale state or caches), '
    'ray 0 of a 2-ray batch = the 1-ray trace, SpotDiagram queries leave the stored data untouched (uninterpreted tracer). Equality of symbolic result terms is decided by the solver. Field lists declared out of ascending order stay as declared. A ray on an iterative (Newton-Raphson) surface gets the same distance alone and in a bundle.',
    'what is decided is that the second call computes the same real function of the same state; bit-identity of floats is not claimed; Newton-Raphson batch coupling only in the thorough tier; sequences of <=3 calls, <=3 rays')
CLAIMS['C19'] = ('Bounded symbolic model checking of Optic.to_dict / from_dict and every registered to_dict/from_dict pair: for K=2 lenses covering each geometry, medium, coating, BSDF, aperture, field/wavelength/unit, '
    'aperture type, telecentric flag, pickup, solve, polarization state - all numeric leaves symbolic - the reloaded lens has a leaf-wise equal dictionary form (solver-decided term equality), equal prescription snapshot, equal paraxial terms and equal ray-trace records; '
    'every leaf is a JSON type; the same after each edit operation. The concrete replay additionally goes through a real JSON file. The same glass name from two catalogues in one lens.',
    'byte-level float round trip of JSON is CPython repr/float contract (assumed); catalogue Material lookups not symbolic; K=2; numba-compiled BSDF parameters concrete')
CLAIMS['C20'] = ('Bounded symbolic model checking of the real ZemaxFileReader + ZemaxToOpticConverter + AbbeMaterial on generated .zmx files (UTF-8 and UTF-16) whose numeric tokens are symbolic '
    '(bound through a shadowed float() in the reader): surface count, radii = 1/CURV or infinity, vertex = running sums of DISZ, conic, PARM n -> coefficient n-1, media (model glass n_d/V_d, catalogue glass, air), stop, '
    'aperture, field type and de-duplicated sorted values, wavelengths and primary, and the paraxial focal length of the written numbers; MODE != SEQ rejected. All SMT queries decided unsat. Two-dimensional field sets (equal y, different x) are imported completely.',
    'files of 1-3 (thorough 6) real surfaces from one generator template (record order as Zemax writes it); mirrors / coordinate breaks not covered; catalogue lookup concrete (one glass)')
CLAIMS['C10'] = ('Bounded symbolic model checking of the real Zernike classes: for each of the 3 x 120 listed positions the solver inverts the published index rule over symbolic integers (n, m) (no other valid pair maps to that position; QF_NIA), '
    'the radial polynomial equals the three-term-recurrence definition for ALL r (polynomial identity, n <= 12/14), normalisation N^2 (1+[m=0]) = 2n+2 over symbolic integers, poly() linear in symbolic coefficient vectors, '
    'ZernikeFit._objective zero at the generating coefficients / affine, fits do not disturb each other. A 37-term fit: every coefficient takes part in the objective.',
    'that scipy least_squares returns the minimiser is assumed (stubbed); orthogonality of the radial polynomials is the textbook fact the normalisation check relies on; azimuthal sign convention sin(m phi), m<0, taken from the library')
CLAIMS['C18'] = ('Bounded symbolic model checking of MaterialFile: each of the nine dispersion formulas with symbolic coefficients (parsed through the real _parse_file from symbolic tokens) and symbolic wavelength equals the refractiveindex.info formula (squared where it is defined on n^2), '
    'malformed coefficient counts raise, tabulated n/k/nk = clamped linear interpolation of symbolic tables incl. column mapping, scalar = array, abbe(); the name-ranking kernel equals the textbook Levenshtein distance over symbolic characters (|s|<=3); model glass reproduces n_d within 0.02 over the whole glass-map box. Odd wavelength exponents in formulas 3 and 5.',
    'NOT decided: the enumeration of the 2593 catalogue rows and the pandas substring filter/ranking around the kernel (finite concrete data, not a solver question); exponent coefficients of formulas 3/4/5 enumerated from {-2,0,1,2,4}; 1-3 terms; 2-3 table rows')
CLAIMS['C17'] = ('Bounded symbolic model checking of JonesFresnel (R+T=1 for s and p with symbolic n1, n2, angle below critical; Brewster; normal incidence), the six polarizers (idempotent Hermitian projectors onto their stated state, for arbitrary complex input), '
    'retarders (unitary, stated retardance, element(theta) = R(theta) element(0) R(-theta)), the diattenuator rotation identity (fails: known finding F8), one uncoated polarised surface step (|E|^2 preserved, E.k = 0) and the angle of incidence; complex arithmetic as pairs of reals, trigonometry axiomatised with angle-sum rules. The polarization matrix after two surfaces is P2 P1 (skew path, arbitrary Jones matrices).',
    'meridional incidence in the quick tier (skew and the unpolarised-mean clause in thorough); quarter/half-wave plates to within 1e-9 because the code carries rounded constants; whole-lens polarised traces are covered only through the per-surface step (induction)')
CLAIMS['C08'] = ('Bounded symbolic model checking of the real Aberrations / AberrationOperand code on K=1..2 (thorough 3) spherical lenses with all radii, thicknesses, indices, aperture and field symbolic, stop first or second, infinite or finite object: '
    'each per-surface third-order term = Welford surface contribution / (2 n\'u\') (oracle written from curvatures, indices and the paraxial rays), sums = -Welford S_I..S_V, defining identities (TCC=3CC, longitudinal = transverse/(-u\'), accessors, seidels(), operands), '
    'stop-shift invariance of S_I and S_IV, the small-aperture limit of the real axial ray, first-order colour terms with a symbolic-dispersion model glass (off-by-one height: known finding F20) and after a medium edit.',
    'paraxial marginal/chief rays taken from the library (their correctness is C04); the small-aperture limit clause is decided as a formal Taylor statement (the REAL trace run on power series in the pupil coordinate, order 5: height on the paraxial image plane = (sum TSC) rho^3 + O(rho^4)) for K<=2 with a real image; a lens with only the axial field: known finding F26; conics/aspheres not covered (property restricts to spheres and planes)')
CLAIMS['C05'] = ('Bounded symbolic model checking on truncated power series: the REAL ray-trace code (generate_rays, Surface._trace_real, conic intersection, normals, refract/reflect, the sequential trace) is executed on series in the scale factor eps with symbolic coefficients; '
    'the limit statement becomes identities between coefficients (eps^0 = 0, eps^1 = paraxial value, eps^2 = 0) decided unsat by the solver: one-surface step for sphere/conic/plane/mirror from an arbitrary near-axis ray (induction over surfaces), and whole K=1..2 lenses against Paraxial.marginal_ray / chief_ray incl. the stop-centre clause.',
    'formal Taylor statement (limit and quadratic rate as eps -> 0); no finite-eps error bound; K<=2 monolithic, any K via the step contract; floats as reals; separated surfaces (t > 0)')
CLAIMS['C09'] = ('Bounded symbolic model checking of the real Wavefront / OPD / OPDFan / RmsWavefrontErrorVsField / RayOperand.OPD_difference code, compositionally: (a) _opd_image_to_xp on an arbitrary ray and sphere returns a root of the sphere equation, the documented one, NaN exactly when the line misses; '
    '(b) the whole Wavefront pipeline with the tracer and (a) uninterpreted: sphere centre = chief image point of the analysed field AND wavelength, radius to the axial paraxial exit pupil, W = (chief path - ray path)/(lambda mm), chief sample exactly 0; (c) the tilt term equals the lead of the start point the real RayGenerator uses (symbolic vignetting); '
    '(d) rms / fan / rms-vs-field / operand are that quantity on the documented samples (recorded tracer calls).',
    'tracer uninterpreted (its unit directions are C02); fields along y; lenses only supply the paraxial exit pupil (plane-surface slab, symbolic thicknesses/index); OPD maps (scipy griddata interpolation) not covered; floats as reals')
CLAIMS['C12'] = ('Bounded symbolic model checking of the real analysis classes over an UNINTERPRETED tracer: SpotDiagram (data, centroid on the primary wavelength among those analysed, rms / geometric radius, no mutation by queries), RmsSpotSizeVsField, EncircledEnergy (the curve drawn by view(): energy within radius, monotone, reaches total), RayFan, Distortion and GridDistortion (angular and object-height fields, both types, bad type rejected), '
    'FieldCurvature (crossing point of the two parabasal rays, curved image included), PupilAberration (real paraxial trace of the lens), RayOperand intercept/direction/rms_spot_size operands: every output equals the documented formula applied to the tracer values at the documented samples (recorded calls), for ALL tracers; explicit field / wavelength lists that differ from the lens included.',
    'the agreement of the parabasal-ray focus with Coddington and of the small-field reference with the paraxial image height are properties of a REAL trace and are not decided here (uninterpreted tracer); 2 fields x 2 wavelengths, 2-7 rays per distribution, 2-3 points per curve; non-degenerate preconditions (reference chief ray off axis, parabasal rays not parallel) stated in the harness')
CLAIMS['C06'] = ('Bounded symbolic model checking of the real surface code (StandardGeometry.distance / surface_normal, RealRays.reflect / refract / propagate, Plane.distance, OPD accumulation in Surface._trace_real) on closed-form stigmatic configurations with symbolic lens numbers and a symbolic hit point anywhere on the sag sheet: '
    'paraboloid mirror with collimated light (any height, also a conic assigned after construction), ellipsoid mirror between its foci in both directions (R, eccentricity symbolic), hyperboloid mirror with a beam converging to the far focus (k=-4), exit face of a plano-hyperbolic singlet k=-n^2 (R, n symbolic), sphere through its centre of curvature: the ray is not lost, hits the surface point aimed at, meets the image point, and its optical path referred to the incoming wavefront equals the axial one. '
    'Perfect-square discriminants are resolved by exact polynomial arithmetic, the remaining radicals are solver atoms.',
    'one surface + image plane per configuration (the property names single-surface closed forms; multi-surface stigmatic systems follow by composing steps); azimuth atan2(4,3); degenerate rays lying in the image plane excluded; the aplanatic-point clause is only attempted in the thorough tier (genuinely algebraic radicals: reported inconclusive if the solver does not finish); zero wavefront error / Strehl 1 follow from these two facts through C09 (distance from the sphere centre is the radius) and C11 (unaberrated pupil) and are not re-derived here; very deep hyperboloids: known finding F24')
CLAIMS['C07'] = ('Bounded symbolic model checking of metamorphic relations: the same real code is executed on a lens / ray and on its transformed description (both symbolic in the same variables) and the relation between the two results is decided: '
    'Optic.scale_system(s) = the lens built with every length times s (conic + plane singlet with aperture, infinite and finite object, all numbers and s symbolic; focal length scales); one surface step under scaling (positions and path x s, directions unchanged), under the two meridional mirrors (and the launch through trace_generic / get_vig_factor / generate_rays with symbolic vignetting under both mirrors and their product), with a dummy plane between equal media inserted, with the sphere tilted about its centre of curvature, and a dispersion-free plate at two symbolic wavelengths.',
    'curved-surface steps in the quick tier: sphere (refracting 1 -> 1.5 and reflecting) with symbolic radius, hit point and start distance and ONE skew rational unit direction (2,-3,6)/7 (conic with symbolic k in the thorough tier; a symbolic direction or symbolic indices on curved surfaces leave genuinely algebraic radicals and did not finish); whole lenses follow from the step relations by induction (paper argument); tilting a spherical surface about its centre of curvature is decided for ONE angle, the Pythagorean rotation atan2(7,24) = 0.2838 rad about x or y (exact rational cosine and sine; a symbolic angle inside the intersection radicals was beyond the solver), for hit points inside the cap in both positions; Seidel sums under scaling not re-derived (C08 decides their formulas, which are homogeneous of degree 1)')
CLAIMS['C11'] = ('Bounded symbolic model checking of the real FFTPSF / FFTMTF / GeometricMTF code on the smallest grid with exact twiddle factors (pupil sampling 4, grid 4): symbolic wavefront errors (any size) and intensities; pupil = (I/mean I) exp(i 2 pi W) inside the unit disk, PSF = 100 |DFT|^2 / unaberrated peak at all 16 pixels, >= 0, total energy independent of W, Strehl = central value / 100 <= 1 (pairwise Cauchy-Schwarz lemmas + linear combination, each link a solver query), unaberrated peak exactly 100; '
    'MTF slices = |DFT(PSF)| normalised, start at one, within [0,1] for an arbitrary non-negative PSF; working F-number = 1/(2|u\'|) of the paraxial marginal ray on real singlets (infinite / finite object, stop at either surface), PSF pixel, MTF frequency step = 1/(grid x pixel), cut-off of both MTF classes.',
    'NOT decided (need realistic sampling, outside a solver encoding): MTF below the diffraction limit and its agreement with (2/pi)(phi - cos phi sin phi), the geometric MTF histogram transform, samplings 16-256 / grids 64-2048 (the code does not branch on the sizes; the DFT itself is numpy.fft, modelled exactly for N = 4), zero padding (grid > sampling); working F-number for a real inverted image in air')
# sentences added with the fourth generation of seeded changes
EXTRA = {
    'C05': ' Quick tier also: a pinned one-parameter lens whose entrance pupil lies in front of the launch plane (stop behind the rear focus of the front surface), the same lens after a trace / set_index / trace history, and with a finite object and angular fields.',
    'C06': ' FFT PSF of a perfect wavefront (zero error at every ray, arbitrary positive ray intensities, 4 x 4 and 3 x 3 grids): Strehl ratio exactly one, peak exactly 100.',
    'C07': ' The rescaled aperture also clips a ray at an arbitrary point exactly like the aperture of the scaled lens.',
    'C08': ' The longitudinal = transverse / (- final marginal slope) identities and every accessor / operand also for a finite object.',
    'C10': ' The stubbed solver carries its call contract as an obligation: the library must ask for the plain least-squares minimiser (linear loss, no finite bounds, N unknowns).',
    'C11': ' FFTPSF.view() (window, interpolation and matplotlib stubbed) leaves every pixel of the stored PSF and the Strehl ratio unchanged.',
    'C15': ' The compensating optimisation runs in every trial, also when the sampled perturbation equals the nominal value.',
}
for _k, _v in EXTRA.items():
    CLAIMS[_k] = (CLAIMS[_k][0] + _v, CLAIMS[_k][1])
NOT_YET = 'check not built yet in this round (work in progress; see DESIGN.md section 6 for the plan)'

props = [json.loads(l) for l in open(os.path.join(ROOT, 'properties.jsonl'))]
checks = []
na = []
for p in props:
    pid = p['id']
    if pid in CLAIMS and os.path.exists(os.path.join(ROOT, 'checks', pid + '.py')):
        text, note = CLAIMS[pid]
        checks.append(dict(
            property_id=pid,
            quick_cmd=f'./check {pid} --tier quick',
            thorough_cmd=f'./check {pid} --tier thorough',
            evidence_file=f'/verif/evidence/{pid}.json',
            replay_cmd_template=f'./check {pid} --replay {{path}}',
            engine='symopt',
            level_claimed=dict(category='model_checking', text=text, design_ref=f'DESIGN.md section 6, {pid}'),
            level_note=note,
            technique='symbolic execution of the real optiland code (numpy facade, SV values in rational normal form) + SMT (z3 4.8/5.1, cvc5) per path; counterexamples replayed on the unpatched code',
        ))
    else:
        na.append(dict(property_id=pid, reason=NA.get(pid, NOT_YET) if 'NA' in globals() else NOT_YET))
m = dict(
    version=1,
    setup_cmd='./setup.sh',
    hooks=dict(guard='OPTILAND_VERIF', enable='none needed: the facade is installed from outside by rebinding module globals at run time (OPTILAND_VERIF=1 is exported by ./check for completeness)',
               baseline_off_cmd='cd /repo && /venv/bin/python -m pytest -ra -q -p no:cacheprovider --timeout=900 --continue-on-collection-errors',
               source_commits=[], add_only=True),
    engines=[dict(name='symopt', path='/verif/symopt', serves_properties=[c['property_id'] for c in checks],
                  kind_free_text='symbolic executor for numpy code (operator-overloading SV scalars in object arrays, re-execution DFS on branch decisions) with SMT-LIB2 back ends z3 4.8.12, z3 5.1, cvc5 1.0.3/1.4; concrete replay of every counterexample')],
    checks=checks,
    not_applicable=na,
    notes='exit 0 = all explored obligations held (inconclusive queries are listed in the evidence and never counted as held); exit 1 + VIOLATION line = replayed violation not in known_findings.json; exit 2 = harness error',
)
json.dump(m, open(os.path.join(ROOT, 'MANIFEST.json'), 'w'), indent=1)
print('claimed', [c['property_id'] for c in checks], 'n/a', len(na))
