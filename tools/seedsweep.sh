#!/bin/bash
# tools/seedsweep.sh [seed ids...]  - runs every seeded change against the check of its own property (quick tier) and prints one line each.
# Applies patches to /repo one at a time and always restores it: do not run while anything else uses /repo.
cd /verif || exit 9
seeds=("$@")
[ ${#seeds[@]} -eq 0 ] && seeds=($(ls seeded))
for s in "${seeds[@]}"; do
  prop=${s%%-*}
  out=$(timeout 1500 tools/seedtest.sh seeded/$s $prop 2>&1)
  rc=$(echo "$out" | grep -o 'check exit [0-9]*' | head -1)
  nv=$(echo "$out" | grep -o '[0-9]* VIOLATION lines' | head -1)
  he=$(echo "$out" | grep -o '[0-9]* harness errors' | head -1)
  first=$(echo "$out" | grep '^VIOLATION' | head -1 | sed 's/.*replays\/[A-Z0-9]*\///' | cut -c1-70)
  echo "$s: $rc; $nv; $he; $(echo "$out" | grep -c 'PATCH DOES NOT APPLY') apply-failures; first=$first"
done
