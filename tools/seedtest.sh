#!/bin/bash
# tools/seedtest.sh <seed dir with patch.diff, demo.py> <PROP> [extra ./check args]
# applies the seeded change to the repository ($OPTILAND_REPO, default /repo), runs the demo and the check, and always restores it.
set -u
seed=$(readlink -f "$1"); prop=$2; shift 2
REPO=${OPTILAND_REPO:-/repo}
tag=$(echo "$REPO" | tr '/' '_')
cd "$REPO" || exit 9
if ! git diff --quiet; then echo "$REPO has uncommitted changes"; exit 9; fi
git apply --check "$seed/patch.diff" || { echo "PATCH DOES NOT APPLY"; exit 9; }
PYTHONPATH=$REPO /venv/bin/python "$seed/demo.py" >/tmp/seed_demo_clean$tag.log 2>&1; echo "demo on clean tree: exit $?"
git apply "$seed/patch.diff"
trap 'git -C "$REPO" checkout -- . ' EXIT
PYTHONPATH=$REPO /venv/bin/python "$seed/demo.py" >/tmp/seed_demo_mut$tag.log 2>&1; echo "demo with change: exit $? ($(tail -1 /tmp/seed_demo_mut$tag.log | cut -c1-200))"
cd /verif && OPTILAND_REPO=$REPO timeout 1200 ./check "$prop" --no-evidence "$@" > /tmp/seed_check$tag.log 2>&1; rc=$?
echo "check exit $rc; $(grep -c '^VIOLATION' /tmp/seed_check$tag.log) VIOLATION lines; $(grep -c '^HARNESS-ERROR' /tmp/seed_check$tag.log) harness errors"
grep -A1 '^VIOLATION' /tmp/seed_check$tag.log | grep -v '^--' | head -6 | cut -c1-260
grep '^HARNESS-ERROR' /tmp/seed_check$tag.log | head -3 | cut -c1-300
exit 0
