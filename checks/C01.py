"""C01 - lens prescription stays consistent under any history of edits (DESIGN §6 C01)."""
import numpy as np

from symopt.harness import harness
from checks.common import ideal

FUNCS = ['optiland.optic.Optic.add_surface', 'optiland.optic.Optic.set_radius', 'optiland.optic.Optic.set_conic',
         'optiland.optic.Optic.set_thickness', 'optiland.optic.Optic.set_index', 'optiland.optic.Optic.set_asphere_coeff',
         'optiland.optic.Optic.update', 'optiland.optic.Optic.image_solve', 'optiland.optic.Optic.add_wavelength',
         'optiland.surfaces.surface_group.SurfaceGroup.add_surface', 'optiland.surfaces.surface_group.SurfaceGroup.positions',
         'optiland.surfaces.surface_group.SurfaceGroup.stop_index', 'optiland.surfaces.surface_group.SurfaceGroup.get_thickness',
         'optiland.surfaces.surface_factory.SurfaceFactory', 'optiland.coordinate_system.CoordinateSystem.position_in_gcs',
         'optiland.pickup.Pickup', 'optiland.pickup.PickupManager', 'optiland.solves.MarginalRayHeightSolve',
         'optiland.wavelength.WavelengthGroup.add_wavelength', 'optiland.optimization.variable.variable.Variable',
         'optiland.optimization.variable.radius.RadiusVariable', 'optiland.optimization.variable.thickness.ThicknessVariable',
         'optiland.optimization.variable.index.IndexVariable', 'optiland.optimization.variable.conic.ConicVariable',
         'optiland.optimization.variable.asphere_coeff.AsphereCoeffVariable', 'optiland.optimization.variable.tilt.TiltVariable',
         'optiland.optimization.variable.decenter.DecenterVariable',
         'optiland.optimization.variable.polynomial_coeff.PolynomialCoeffVariable']

TYPES = ('standard', 'plane', 'even_asphere', 'polynomial', 'chebyshev')


def make_lens(ctx, kinds, obj='inf', tilt_at=None, stops=None, mats=None, concrete=None):
    """build a lens surface by surface in index order; returns (optic, spec) where spec holds the numbers given"""
    from optiland.optic import Optic
    o = Optic()
    K = len(kinds)
    spec = dict(K=K, t=[], R=[], k=[], n=[], coef=[], cs=[], stop_flags=[], kinds=kinds, mats=[])
    concrete = concrete or {}
    _real = ctx.real

    class _C:
        """ctx whose real() returns a constant for the names listed in `concrete` (fewer symbols where the harness
        does not need them)"""
        def __getattr__(self, a):
            return getattr(ctx_outer, a)

        def real(self, name, **kw):
            if name in concrete:
                return ctx_outer.pinned(name, concrete[name])
            return _real(name, **kw)
    ctx_outer = ctx
    ctx = _C()
    t0 = np.inf if obj == 'inf' else ctx.real('t0', lo=0.0, lo_strict=True)
    spec['t0'] = t0
    o.add_surface(index=0, thickness=t0)
    for i, kind in enumerate(kinds, start=1):
        kw = dict(index=i)
        if kind != 'plane':
            R = ctx.real(f'R{i}', ne=0)
            kc = ctx.real(f'k{i}')
            kw.update(radius=R, conic=kc)
        else:
            R, kc = np.inf, 0.0
        spec['R'].append(R)
        spec['k'].append(kc)
        t = ctx.real(f't{i}')
        spec['t'].append(t)
        kw['thickness'] = t
        m = (mats or {}).get(i, 'ideal')
        if m == 'shared':
            # one user-supplied material instance used behind several surfaces
            if 'shared_mat' not in spec:
                spec['shared_n'] = ctx.real('nshared', lo=1.0, hi=4.0)
                spec['shared_mat'] = ideal(spec['shared_n'])
            n = spec['shared_n']
            kw['material'] = spec['shared_mat']
        elif m == 'ideal':
            n = ctx.real(f'n{i}', lo=1.0, hi=4.0)
            kw['material'] = ideal(n)
        elif m == 'mirror':
            n = 'mirror'
            kw['material'] = 'mirror'
        else:
            n = 1.0
            kw['material'] = 'air'
        spec['n'].append(n)
        spec['mats'].append(m)
        if kind == 'even_asphere':
            c = [ctx.real(f'c{i}_{j}') for j in range(2)]
            kw.update(surface_type='even_asphere', coefficients=c)
        elif kind in ('polynomial', 'chebyshev'):
            c = [[ctx.real(f'c{i}_{a}{b}') for b in range(2)] for a in range(2)]
            kw.update(surface_type=kind, coefficients=c)
            if kind == 'chebyshev':
                kw.update(norm_x=10.0, norm_y=10.0)
        else:
            c = None
        spec['coef'].append(c)
        if tilt_at == i:
            cs = dict(dx=ctx.real('dx'), dy=ctx.real('dy'), rx=ctx.real('rx', lo=-1.0, hi=1.0), ry=ctx.real('ry', lo=-1.0, hi=1.0))
            kw.update(cs)
        else:
            cs = dict(dx=0.0, dy=0.0, rx=0.0, ry=0.0)
        spec['cs'].append(cs)
        if stops == 'sym':
            f = ctx.boolean(f'stop{i}')
        else:
            f = (i == (stops or 1))
        spec['stop_flags'].append(f)
        kw['is_stop'] = f
        o.add_surface(**kw)
    o.add_surface(index=K + 1)
    spec['epd'] = ctx.real('epd', lo=0.1, hi=50.0)
    o.set_aperture('EPD', spec['epd'])
    o.set_field_type('angle')
    o.add_field(y=0.0)
    o.add_wavelength(0.55, is_primary=True)
    o.add_wavelength(0.65)
    return o, spec


def snapshot(ctx, o):
    """all observables of the prescription as a flat dict"""
    sg = o.surface_group
    snap = {}
    pos = sg.positions
    for k, s in enumerate(sg.surfaces):
        snap[f'z{k}'] = ctx.val(pos[k])
        g = s.geometry
        snap[f'R{k}'] = g.radius
        snap[f'type{k}'] = type(g).__name__
        snap[f'k{k}'] = getattr(g, 'k', 0.0)
        cs = g.cs
        for a in ('x', 'y', 'rx', 'ry'):
            snap[f'cs_{a}{k}'] = getattr(cs, a)
        c = getattr(g, 'c', None)
        if c is not None:
            for j, v in enumerate(np.ravel(np.asarray(c, dtype=object))):
                snap[f'c{k}_{j}'] = v
        for wi, w in enumerate((0.55, 0.65)):
            snap[f'n{k}_w{wi}'] = s.material_post.n(w)
        snap[f'stop{k}'] = bool(s.is_stop)
        snap[f'refl{k}'] = bool(s.is_reflective)
    snap['stop_index'] = sg.stop_index
    snap['primary_index'] = o.wavelengths.primary_index
    snap['n_waves'] = o.wavelengths.num_wavelengths
    snap['ap'] = o.aperture.value
    return snap


def chain_ok(o):
    """material behind each surface is (the same object as) the material in front of the next"""
    s = o.surface_group.surfaces
    return all(s[k].material_post is s[k + 1].material_pre for k in range(len(s) - 1))


def _same(ctx, a, b):
    if isinstance(a, (str, bool, type(None))) or isinstance(b, (str, bool, type(None))):
        return a == b
    if isinstance(a, (int,)) and isinstance(b, (int,)) and not isinstance(a, bool):
        return a == b
    af, bf = ctx.finite(a), ctx.finite(b)
    if not af or not bf:
        return (not af) and (not bf) and (ctx.isnan(a) == ctx.isnan(b)) and (ctx.isnan(a) or bool(ctx.val(a) == ctx.val(b)))
    return ctx.eq(a, b)


def frame(ctx, before, after, changed, tag=''):
    """every observable not in `changed` is unchanged"""
    ok = []
    for key in before:
        if key in changed:
            continue
        if key not in after:
            ctx.oblige(f'frame{tag}:{key}', False)
            continue
        ctx.oblige(f'frame{tag}:{key}', _same(ctx, before[key], after[key]))
    for key in after:
        if key not in before and key not in changed:
            ctx.oblige(f'frame{tag}:new:{key}', False)


# ------------------------------------------------------------------------------------ H1 build
def cases_build(tier):
    out = []
    for K in ([1, 2, 3] if tier == 'quick' else [1, 2, 3, 4, 5, 6]):
        out.append(dict(kinds=('standard',) * K, obj='inf', tilt_at=None))
    out.append(dict(kinds=('standard', 'plane', 'even_asphere'), obj='finite', tilt_at=2))
    out.append(dict(kinds=('polynomial', 'chebyshev', 'standard'), obj='inf', tilt_at=3))
    out.append(dict(kinds=('standard', 'standard', 'standard', 'standard'), obj='finite', tilt_at=None))
    if tier == 'thorough':
        out.append(dict(kinds=('even_asphere', 'plane', 'polynomial', 'chebyshev', 'standard'), obj='finite', tilt_at=4))
    return out


@harness('C01', 'H1_build', cases=cases_build, funcs=FUNCS,
         bounds='K<=4 surfaces (thorough 6) of every type, all radii/conics/thicknesses/indices/coefficients/tilts/decentres '
                'symbolic, stop flag of every surface a symbolic boolean, object at infinity or finite',
         doc='appending surfaces in index order: no exception, vertex = running sum of thicknesses, surface 1 at 0, object at -t0, '
             'media chained, at most one stop (the last one flagged)')
def h1_build(ctx, kinds, obj, tilt_at):
    o, sp = make_lens(ctx, kinds, obj, tilt_at, stops='sym')
    K = sp['K']
    pos = o.surface_group.positions
    ctx.oblige('z1_is_0', ctx.eq(pos[1], 0.0))
    run = 0.0
    for k in range(2, K + 2):
        run = run + sp['t'][k - 2]
        ctx.oblige(f'z{k}_running_sum', ctx.eq(pos[k], run))
    if obj == 'inf':
        ctx.oblige('object_at_minus_inf', (not ctx.finite(pos[0])) and bool(ctx.val(pos[0]) < 0))
    else:
        ctx.oblige('object_at_minus_t0', ctx.eq(pos[0], -sp['t0']))
    ctx.oblige('media_chained', chain_ok(o))
    surfs = o.surface_group.surfaces
    for k in range(1, K + 1):
        n = sp['n'][k - 1]
        if n != 'mirror':
            ctx.oblige(f'n_post{k}', ctx.eq(surfs[k].material_post.n(0.55), n))
            ctx.oblige(f'n_pre{k + 1}', ctx.eq(surfs[k + 1].material_pre.n(0.55), n))
        ctx.oblige(f'R{k}_readback', _same(ctx, o.surface_group.radii[k], sp['R'][k - 1]))
        if kinds[k - 1] != 'plane':
            ctx.oblige(f'k{k}_readback', ctx.eq(o.surface_group.conic[k], sp['k'][k - 1]))
        g = surfs[k].geometry
        for a, nm in (('x', 'dx'), ('y', 'dy'), ('rx', 'rx'), ('ry', 'ry')):
            ctx.oblige(f'cs_{a}{k}', ctx.eq(getattr(g.cs, a), sp['cs'][k - 1][nm]))
    flags = [bool(f) for f in sp['stop_flags']]   # decisions already taken inside add_surface
    nstops = sum(1 for s in surfs if bool(s.is_stop))
    ctx.oblige('at_most_one_stop', nstops <= 1)
    if any(flags):
        last = max(i for i, f in enumerate(flags) if f) + 1
        ctx.oblige('stop_is_last_flagged', o.surface_group.stop_index == last)
    else:
        ctx.oblige('no_stop_when_none_flagged', o.surface_group.stop_index is None)
    ctx.observe('z_last', pos[K + 1])


@harness('C01', 'H1_wavelengths', funcs=FUNCS,
         cases=lambda tier: [dict(N=n) for n in ((1, 2, 3, 4) if tier == 'quick' else (1, 2, 3, 4, 5, 6))],
         bounds='1..4 (thorough 6) add_wavelength calls, values symbolic, every is_primary flag a symbolic boolean',
         doc='after any sequence of add_wavelength calls exactly one wavelength is primary; it is the last one flagged '
             '(the first one if none is flagged)')
def h1_wavelengths(ctx, N):
    from optiland.optic import Optic
    o = Optic()
    flags = []
    vals = []
    for i in range(N):
        w = ctx.real(f'w{i}', lo=0.2, hi=12.0)
        f = ctx.boolean(f'p{i}')
        o.add_wavelength(w, is_primary=f)
        flags.append(f)
        vals.append(w)
    ws = o.wavelengths.wavelengths
    prim = [i for i, w in enumerate(ws) if bool(w.is_primary)]
    ctx.oblige('exactly_one_primary', len(prim) == 1)
    fl = [bool(f) for f in flags]
    want = max((i for i, f in enumerate(fl) if f), default=0)
    ctx.oblige('primary_is_last_flagged', o.wavelengths.primary_index == want)
    ctx.oblige('primary_value', ctx.eq(o.primary_wavelength, vals[want]))
    ctx.oblige('count', o.wavelengths.num_wavelengths == N)
    for i in range(N):
        ctx.oblige(f'value{i}', ctx.eq(o.wavelengths.get_wavelength(i), vals[i]))


# ------------------------------------------------------------------------------------ H2 edit step
EDIT_KINDS = ('standard', 'even_asphere', 'plane')


def cases_edit(tier):
    out = []
    kinds = EDIT_KINDS
    for s in (1, 2, 3):
        out.append(dict(op='set_radius', at=s))
        out.append(dict(op='var_radius', at=s, scaled=True))
        out.append(dict(op='var_radius', at=s, scaled=False))
    for s in (1, 2):
        out.append(dict(op='set_conic', at=s))
        out.append(dict(op='var_conic', at=s, scaled=True))
    for s in (0, 1, 2, 3):
        out.append(dict(op='set_thickness', at=s))
        out.append(dict(op='var_thickness', at=s, scaled=(s % 2 == 0)))
    for s in (1, 2, 3):
        out.append(dict(op='set_index', at=s))
        out.append(dict(op='var_index', at=s, scaled=(s % 2 == 1)))
    for j in (0, 1):
        out.append(dict(op='set_asphere_coeff', at=2, j=j))
        out.append(dict(op='var_asphere_coeff', at=2, j=j, scaled=(j == 0)))
    for s in (1, 3):
        for ax in ('x', 'y'):
            out.append(dict(op='var_tilt', at=s, axis=ax, scaled=True))
            out.append(dict(op='var_decenter', at=s, axis=ax, scaled=False))
    for s in (1, 2, 3):
        out.append(dict(op='set_index', at=s, variant='shared'))
        out.append(dict(op='set_index', at=s, variant='mirror'))
    out.append(dict(op='var_index', at=1, scaled=True, variant='mirror'))
    out.append(dict(op='set_thickness', at=2, variant='mirror'))
    out.append(dict(op='add_wavelength', at=0))
    out.append(dict(op='image_solve', at=4))
    out.append(dict(op='update_noop', at=0))
    return out


def _edit_lens(ctx, obj='finite', tilt_at=3, kinds=EDIT_KINDS, mats=None):
    return make_lens(ctx, kinds, obj, tilt_at, stops=2, mats=mats)


@harness('C01', 'H2_edit_step', cases=cases_edit, funcs=FUNCS,
         bounds='arbitrary prescription with K=3 (conic, even asphere with 2 coefficients, tilted+decentred plane), finite object; '
                'one edit operation with a symbolic argument at an enumerated surface (inductive step: any history length)',
         doc='an edit changes exactly the addressed quantity, reads back the value set (getter and Variable.value), keeps '
             'surface 1 at z=0, moves later vertices rigidly for thickness edits and keeps media chained')
def h2_edit(ctx, op, at, scaled=None, j=None, axis=None, variant=None):
    from optiland.optimization.variable import Variable
    if variant == 'shared':
        o, sp = _edit_lens(ctx, kinds=('standard', 'standard', 'standard'), mats={1: 'shared', 2: 'air', 3: 'shared'})
    elif variant == 'mirror':
        o, sp = _edit_lens(ctx, kinds=('standard', 'standard', 'standard'), mats={2: 'mirror'})
    else:
        o, sp = _edit_lens(ctx)
    K = sp['K']
    v = ctx.real('v', ne=0) if 'radius' in op else (ctx.real('v', lo=1.0, hi=4.0) if 'index' in op else ctx.real('v'))
    before = snapshot(ctx, o)
    changed = set()
    sg = o.surface_group

    def var(type_name, **kw):
        return Variable(o, type_name, apply_scaling=bool(scaled), surface_number=at, **kw)

    if op == 'set_radius':
        o.set_radius(v, at)
        changed = {f'R{at}', f'type{at}', f'k{at}'} if sp['kinds'][at - 1] == 'plane' else {f'R{at}'}
        ctx.oblige('readback', ctx.eq(sg.radii[at], v))
        if sp['kinds'][at - 1] == 'plane':
            ctx.oblige('plane_becomes_standard', type(sg.surfaces[at].geometry).__name__ == 'StandardGeometry')
            ctx.oblige('new_conic_zero', ctx.eq(sg.conic[at], 0.0))
    elif op == 'var_radius':
        x = var('radius')
        x.update(v)
        changed = {f'R{at}', f'type{at}', f'k{at}'} if sp['kinds'][at - 1] == 'plane' else {f'R{at}'}
        ctx.oblige('var_readback', ctx.eq(x.value, v))
        ctx.oblige('getter', ctx.eq(sg.radii[at], (v + 1.0) * 100.0 if scaled else v))
    elif op == 'set_conic':
        o.set_conic(v, at)
        changed = {f'k{at}'}
        ctx.oblige('readback', ctx.eq(sg.conic[at], v))
    elif op == 'var_conic':
        x = var('conic')
        x.update(v)
        changed = {f'k{at}'}
        ctx.oblige('var_readback', ctx.eq(x.value, v))
        ctx.oblige('getter', ctx.eq(sg.conic[at], v))
    elif op in ('set_thickness', 'var_thickness'):
        if op == 'set_thickness':
            o.set_thickness(v, at)
            newt = v
        else:
            x = var('thickness')
            x.update(v)
            ctx.oblige('var_readback', ctx.eq(x.value, v))
            newt = (v + 1.0) * 10.0 if scaled else v
        changed = {f'z{k}' for k in range(K + 2)}
        after = snapshot(ctx, o)
        ctx.oblige('readback', ctx.eq(sg.get_thickness(at), newt))
        ctx.oblige('z1_is_0', ctx.eq(after['z1'], 0.0))
        for k in range(K + 1):
            if k != at:
                ctx.oblige(f'other_gap{k}', ctx.eq(after[f'z{k + 1}'] - after[f'z{k}'], before[f'z{k + 1}'] - before[f'z{k}']))
    elif op in ('set_index', 'var_index'):
        if op == 'set_index':
            o.set_index(v, at)
            newn = v
        else:
            x = var('index', wavelength=0.55)
            x.update(v)
            ctx.oblige('var_readback', ctx.eq(x.value, v))
            newn = v + 1.5 if scaled else v
        changed = {f'n{at}_w0', f'n{at}_w1'}
        ctx.oblige('readback_post', ctx.eq(sg.surfaces[at].material_post.n(0.55), newn))
        ctx.oblige('readback_next_pre', ctx.eq(sg.surfaces[at + 1].material_pre.n(0.55), newn))
        ctx.oblige('optic_n', ctx.eq(o.n(0.55)[at], newn))
    elif op in ('set_asphere_coeff', 'var_asphere_coeff'):
        if op == 'set_asphere_coeff':
            o.set_asphere_coeff(v, at, j)
            newc = v
        else:
            x = var('asphere_coeff', coeff_number=j)
            x.update(v)
            ctx.oblige('var_readback', ctx.eq(x.value, v))
            newc = v / 10 ** (4 + 2 * j) if scaled else v
        changed = {f'c{at}_{j}'}
        ctx.oblige('readback', ctx.eq(sg.surfaces[at].geometry.c[j], newc))
    elif op in ('var_tilt', 'var_decenter'):
        x = var('tilt' if op == 'var_tilt' else 'decenter', axis=axis)
        x.update(v)
        nm = ('r' + axis) if op == 'var_tilt' else axis
        changed = {f'cs_{nm}{at}'}
        ctx.oblige('var_readback', ctx.eq(x.value, v))
        ctx.oblige('getter', ctx.eq(getattr(sg.surfaces[at].geometry.cs, nm), v))
    elif op == 'add_wavelength':
        f = ctx.boolean('prim')
        o.add_wavelength(ctx.real('wnew', lo=0.2, hi=12.0), is_primary=f)
        changed = {'n_waves', 'primary_index'}
        ctx.oblige('count', o.wavelengths.num_wavelengths == 3)
        ctx.oblige('one_primary', sum(1 for w in o.wavelengths.wavelengths if bool(w.is_primary)) == 1)
        ctx.oblige('primary_index', o.wavelengths.primary_index == (2 if bool(f) else 0))
    elif op == 'image_solve':
        ys, us = marginal_oracle_general(ctx, o, sp, K)
        ctx.assume(ctx.Not(us[K] == 0))
        o.image_solve()
        changed = {f'z{K + 1}'}
        ya, ua = o.paraxial.marginal_ray()
        if ctx.finite(ya[-1]):
            ctx.oblige('marginal_ray_crosses_axis_at_image', ctx.eq(ya[-1], 0.0))
    elif op == 'update_noop':
        o.update()
    after = snapshot(ctx, o)
    frame(ctx, before, after, changed)
    ctx.oblige('media_chained', chain_ok(o))
    ctx.observe('z_last', after[f'z{K + 1}'])


# ------------------------------------------------------------------------------------ H3 coefficient variables
@harness('C01', 'H2_poly_coeff', funcs=FUNCS,
         cases=lambda tier: [dict(kind=k, idx=i, scaled=s) for k in ('polynomial', 'chebyshev')
                             for i, s in (((0, 1), True), ((1, 1), False), ((2, 1), False))],
         bounds='2x2 coefficient matrix, index inside and one row outside (padding path)',
         doc='polynomial / Chebyshev coefficient variables: set-then-read identity, only that coefficient changes')
def h2_poly(ctx, kind, idx, scaled):
    from optiland.optimization.variable import Variable
    o, sp = make_lens(ctx, ('standard', kind), 'inf', None, stops=1)
    v = ctx.real('v')
    before = snapshot(ctx, o)
    x = Variable(o, kind + '_coeff', apply_scaling=scaled, surface_number=2, coeff_index=idx)
    mid = snapshot(ctx, o)
    x.update(v)
    ctx.oblige('var_readback', ctx.eq(x.value, v))
    c = o.surface_group.surfaces[2].geometry.c
    ctx.oblige('getter', ctx.eq(c[idx[0]][idx[1]], v))
    # all previously existing coefficients other than the addressed one are unchanged
    c0 = sp['coef'][1]
    for a in range(2):
        for b in range(2):
            if (a, b) != tuple(idx):
                ctx.oblige(f'coef_{a}{b}_unchanged', ctx.eq(c[a][b], c0[a][b]))
    after = snapshot(ctx, o)
    skip = {k for k in set(before) | set(after) if k.startswith('c2_')}
    frame(ctx, before, after, skip)


# ------------------------------------------------------------------------------------ H3 pairs of edits
def cases_pairs(tier):
    ops = [('set_radius', 3), ('set_radius', 1), ('set_thickness', 1), ('set_thickness', 0), ('set_index', 1), ('set_index', 2),
           ('set_conic', 1)]
    out = []
    i = 0
    for a in ops:
        for b in ops:
            i += 1
            if tier == 'quick' and (a == b or i % 3):
                continue
            out.append(dict(a=a, b=b))
    return out


def _apply(ctx, o, op, at, v):
    getattr(o, op)(v, at)


def _expected_after(ctx, snap, sp, op, at, v, K):
    """oracle: the snapshot that an edit must produce (pure function of the old snapshot)"""
    s = dict(snap)
    if op == 'set_radius':
        s[f'R{at}'] = v
        if s[f'type{at}'] == 'Plane':
            s[f'type{at}'] = 'StandardGeometry'
            s[f'k{at}'] = 0.0
    elif op == 'set_conic':
        s[f'k{at}'] = v
    elif op == 'set_index':
        s[f'n{at}_w0'] = v
        s[f'n{at}_w1'] = v
    elif op == 'set_thickness':
        delta = v - (snap[f'z{at + 1}'] - snap[f'z{at}'])
        for k in range(at + 1, K + 2):
            s[f'z{k}'] = snap[f'z{k}'] + delta
        shift = s['z1']
        for k in range(K + 2):
            s[f'z{k}'] = s[f'z{k}'] - shift
    return s


@harness('C01', 'H3_pairs', cases=cases_pairs, funcs=FUNCS, tiers=('quick', 'thorough'),
         bounds='ordered pairs of edits (history depth 2) on the K=3 lens, symbolic arguments',
         doc='two successive edits produce exactly the prescription predicted by composing the two single-edit oracles '
             '(catches hidden state: shared material objects, plane->standard replacement, last_thickness)')
def h3_pairs(ctx, a, b):
    o, sp = _edit_lens(ctx)
    K = sp['K']
    s0 = snapshot(ctx, o)
    va = ctx.real('va', ne=0) if a[0] == 'set_radius' else (ctx.real('va', lo=1, hi=4) if a[0] == 'set_index' else ctx.real('va'))
    vb = ctx.real('vb', ne=0) if b[0] == 'set_radius' else (ctx.real('vb', lo=1, hi=4) if b[0] == 'set_index' else ctx.real('vb'))
    _apply(ctx, o, a[0], a[1], va)
    _apply(ctx, o, b[0], b[1], vb)
    got = snapshot(ctx, o)
    want = _expected_after(ctx, _expected_after(ctx, s0, sp, a[0], a[1], va, K), sp, b[0], b[1], vb, K)
    for key in want:
        ctx.oblige(f'pair:{key}', _same(ctx, got.get(key), want[key]))
    ctx.oblige('media_chained', chain_ok(o))
    ctx.observe('z_last', got[f'z{K + 1}'])


# ------------------------------------------------------------------------------------ H4 pickups and solves
def cases_pickups(tier):
    out = [dict(attr='radius', src=1, dst=2), dict(attr='radius', src=1, dst=3), dict(attr='conic', src=1, dst=2),
           dict(attr='thickness', src=1, dst=2), dict(attr='thickness', src=2, dst=1), dict(attr='chain', src=1, dst=2)]
    return out


@harness('C01', 'H4_pickups', cases=cases_pickups, funcs=FUNCS,
         bounds='K=3, one pickup (or a chain of two) with symbolic scale and offset; source edited after the pickup is added',
         doc='after update(): target = scale*source + offset (radius / conic / thickness; chain of two applied in order)')
def h4_pickups(ctx, attr, src, dst):
    o, sp = _edit_lens(ctx, kinds=('standard', 'even_asphere', 'plane'), tilt_at=None)
    sc, off = ctx.real('scale', ne=0), ctx.real('offset')
    sg = o.surface_group
    get = {'radius': lambda k: sg.radii[k], 'conic': lambda k: sg.conic[k], 'thickness': lambda k: sg.get_thickness(k)}
    setter = {'radius': o.set_radius, 'conic': o.set_conic, 'thickness': o.set_thickness}
    if attr == 'chain':
        sc2, off2 = ctx.real('scale2', ne=0), ctx.real('offset2')
        o.pickups.add(1, 'radius', 2, scale=sc, offset=off)
        o.pickups.add(2, 'radius', 3, scale=sc2, offset=off2)
        newv = ctx.real('newsrc', ne=0)
        o.set_radius(newv, 1)
        o.update()
        ctx.oblige('first', ctx.eq(sg.radii[2], sc * newv + off))
        ctx.oblige('second', ctx.eq(sg.radii[3], sc2 * (sc * newv + off) + off2))
        ctx.oblige('source_kept', ctx.eq(sg.radii[1], newv))
        return
    before = snapshot(ctx, o)
    o.pickups.add(src, attr, dst, scale=sc, offset=off)
    ctx.oblige('on_add', ctx.eq(get[attr](dst), sc * ctx.val(get[attr](src)) + off))
    newv = ctx.real('newsrc', ne=0) if attr == 'radius' else ctx.real('newsrc')
    setter[attr](newv, src)
    o.update()
    ctx.oblige('after_update', ctx.eq(get[attr](dst), sc * ctx.val(get[attr](src)) + off))
    ctx.oblige('source_kept', ctx.eq(get[attr](src), newv))
    after = snapshot(ctx, o)
    if attr == 'thickness':
        changed = {f'z{k}' for k in range(sp['K'] + 2)}
        ctx.oblige('z1_is_0', ctx.eq(after['z1'], 0.0))
        for k in range(sp['K'] + 1):
            if k not in (src, dst):
                ctx.oblige(f'other_gap{k}', ctx.eq(after[f'z{k + 1}'] - after[f'z{k}'], before[f'z{k + 1}'] - before[f'z{k}']))
    else:
        key = 'R' if attr == 'radius' else 'k'
        changed = {f'{key}{src}', f'{key}{dst}'}
        if attr == 'radius' and sp['kinds'][dst - 1] == 'plane':
            changed |= {f'type{dst}', f'k{dst}'}
    frame(ctx, before, after, changed)
    ctx.oblige('media_chained', chain_ok(o))


def marginal_oracle(ctx, sp, K):
    """paraxial marginal ray (heights y_k at surfaces 1..K+1, slopes u_k behind surfaces 0..K+1) from the prescription
    numbers; stop at surface 1 (entrance pupil at the first vertex), image surface in air"""
    epd = None
    one = ctx.const(1.0)
    ns = [one] + [one * n if n != 'mirror' else None for n in sp['n']] + [one]
    y = ctx.val(sp['epd']) / 2
    u = ctx.const(0.0) if sp['t0'] is np.inf else y / sp['t0']
    ys, us = [None], [u]
    n_prev = ns[0]
    for k in range(1, K + 2):
        if k > 1:
            y = y + sp['t'][k - 2] * u
        R = sp['R'][k - 1] if k <= K else np.inf
        n_new = ns[k]
        if R is np.inf:
            u = n_prev * u / n_new
        else:
            u = (n_prev * u - y * (n_new - n_prev) / R) / n_new
        ys.append(y)
        us.append(u)
        n_prev = n_new
    return ys, us


def marginal_oracle_general(ctx, o, sp, K):
    """as marginal_oracle but for any stop position: entrance pupil from the prescription (paraxial, radii only)"""
    one = ctx.const(1.0)
    ns = [one] + [one * n if n != 'mirror' else None for n in sp['n']] + [one]
    stop = [i for i, f in enumerate(sp['stop_flags'], start=1) if f is True][0]
    # trace a ray (y1=1,u0=0) and (y1=0,u0=1) to the stop plane to get A_s, B_s
    def to_stop(y, u):
        n_prev = ns[0]
        for k in range(1, stop):
            R = sp['R'][k - 1]
            n_new = ns[k]
            u = n_prev * u / n_new if R is np.inf else (n_prev * u - y * (n_new - n_prev) / R) / n_new
            y = y + sp['t'][k - 1] * u
            n_prev = n_new
        return y
    As, Bs = to_stop(one, one * 0), to_stop(one * 0, one)
    epl = -Bs / As * -1 if False else Bs / As * 1
    epd = ctx.val(sp['epd'])
    if sp['t0'] is np.inf:
        y, u = epd / 2, ctx.const(0.0)
    else:
        u = epd / (2 * (epl + sp['t0']))
        y = u * sp['t0']
    ys, us = [None], [u]
    n_prev = ns[0]
    for k in range(1, K + 2):
        if k > 1:
            y = y + sp['t'][k - 2] * u
        R = sp['R'][k - 1] if k <= K else np.inf
        n_new = ns[k]
        u = n_prev * u / n_new if R is np.inf else (n_prev * u - y * (n_new - n_prev) / R) / n_new
        ys.append(y)
        us.append(u)
        n_prev = n_new
    return ys, us


@harness('C01', 'H4_pickup_and_solve', funcs=FUNCS,
         cases=lambda tier: [dict(attr='radius'), dict(attr='thickness')],
         bounds='K=3 spherical lens carrying one pickup (symbolic scale/offset) and one image-surface marginal-ray-height solve; '
                'the pickup source is edited, then update() is called once',
         doc='after a single update() both hold: target = scale*source + offset AND the marginal ray is at the requested height')
def h4_pickup_and_solve(ctx, attr):
    o, sp = make_lens(ctx, ('standard', 'standard', 'standard'), 'inf', None, stops=1)
    K = sp['K']
    sc, off, h = ctx.real('scale', ne=0), ctx.real('offset'), ctx.real('h')
    sg = o.surface_group
    if attr == 'radius':
        o.pickups.add(1, 'radius', 2, scale=sc, offset=off)
    else:
        o.pickups.add(1, 'thickness', 2, scale=sc, offset=off)
    o.solves.add('marginal_ray_height', K + 1, height=h)
    o.update()
    newv = ctx.real('newsrc', ne=0)
    if attr == 'radius':
        o.set_radius(newv, 1)
        sp2 = dict(sp, R=[newv, sc * newv + off, sp['R'][2]])
    else:
        o.set_thickness(newv, 1)
        sp2 = dict(sp, t=[newv, sc * newv + off, sp['t'][2]])
    if attr == 'radius':
        ctx.assume(ctx.Not(sc * newv + off == 0))
    ys, us = marginal_oracle(ctx, sp2, K)
    ctx.assume(ctx.Not(us[K] == 0))
    o.update()
    if attr == 'radius':
        ctx.oblige('pickup_holds', ctx.eq(sg.radii[2], sc * ctx.val(sg.radii[1]) + off))
    else:
        ctx.oblige('pickup_holds', ctx.eq(sg.get_thickness(2), sc * ctx.val(sg.get_thickness(1)) + off))
    ya, ua = o.paraxial.marginal_ray()
    got = ctx.val(ya[K + 1])
    ctx.observe('ya_img', got)
    if ctx.finite(got):
        ctx.oblige('solve_holds', ctx.eq(got, h))


def cases_solves(tier):
    out = [dict(at=4, obj='inf'), dict(at=2, obj='inf'), dict(at=3, obj='finite'), dict(at=4, obj='finite')]
    return out


@harness('C01', 'H4_solves', cases=cases_solves, funcs=FUNCS,
         bounds='K=3 spherical lens, marginal ray height solve with symbolic height on an interior surface and on the image surface',
         doc='after update(): the paraxial marginal ray has the requested height on the solved surface; surfaces before it do not move; '
             'surfaces behind it move rigidly')
def h4_solves(ctx, at, obj):
    o, sp = make_lens(ctx, ('standard', 'standard', 'standard'), obj, None, stops=1)
    K = sp['K']
    h = ctx.real('h')
    ys, us = marginal_oracle(ctx, sp, K)
    # the solve is defined only if the marginal ray arrives at the surface with a non-zero slope
    ctx.assume(ctx.Not(us[at - 1] == 0))
    before = snapshot(ctx, o)
    o.solves.add('marginal_ray_height', at, height=h)
    o.update()
    ctx.oblige('new_vertex', ctx.eq(o.surface_group.positions[at], before[f'z{at}'] + (h - ys[at]) / us[at - 1]))
    ya, ua = o.paraxial.marginal_ray()
    got = ctx.val(ya[at])
    ctx.observe('ya_at', got)
    if ctx.finite(got):
        ctx.oblige('marginal_height_as_requested', ctx.eq(got, h))
    after = snapshot(ctx, o)
    changed = {f'z{k}' for k in range(at, K + 2)}
    frame(ctx, before, after, changed)
    for k in range(at, K + 1):
        if ctx.finite(after[f'z{k}']) and ctx.finite(after[f'z{k + 1}']):
            ctx.oblige(f'rigid_gap{k}', ctx.eq(after[f'z{k + 1}'] - after[f'z{k}'], before[f'z{k + 1}'] - before[f'z{k}']))


@harness('C01', 'H4_two_solves', cases=lambda tier: [dict(obj='inf')] + ([dict(obj='finite')] if tier == 'thorough' else []), funcs=FUNCS,
         bounds='K=3 spherical lens carrying TWO marginal-ray-height solves (interior surface 2 and the image surface, symbolic heights); '
                'the first radius is edited afterwards and update() is called once',
         doc='after update() every solve holds: the paraxial marginal ray has the requested height on each solved surface (a later solve '
             'has to see the surfaces as the earlier one left them)')
def h4_two_solves(ctx, obj):
    o, sp = make_lens(ctx, ('standard', 'standard', 'standard'), obj, None, stops=1)
    K = sp['K']
    h1, h2 = ctx.real('h1'), ctx.real('h2')
    o.solves.add('marginal_ray_height', 2, height=h1)
    o.solves.add('marginal_ray_height', K + 1, height=h2)
    o.set_radius(ctx.real('R1_new', ne=0), 1)
    o.update()
    ya, ua = o.paraxial.marginal_ray()
    g1, g2 = ctx.val(ya[2]), ctx.val(ya[K + 1])
    if ctx.finite(g1) and ctx.finite(g2):
        ctx.oblige('first_solve_holds', ctx.eq(g1, h1))
        ctx.oblige('second_solve_holds', ctx.eq(g2, h2))
    ctx.observe('g2', g2)
