"""Helpers shared by the per-property harness files (work in both sym and conc mode)."""
import numpy as np


def ideal(n):
    from optiland.materials import IdealMaterial
    return IdealMaterial(n=n, k=0.0)


def build_optic(ctx, surfs, obj_t=np.inf, aperture=('EPD', 10.0), field_type='angle', fields=(0.0,),
                wavelengths=((0.55, True),), image=True, image_n=None):
    """surfs: list of dict(radius=, thickness=, n=<index after, or None for air or 'mirror'>, conic=, stop=bool,
    type=, extra kwargs).  Adds object surface (index 0), the surfaces, and a final image surface."""
    from optiland.optic import Optic
    o = Optic()
    o.add_surface(index=0, thickness=obj_t)
    for i, s in enumerate(surfs):
        s = dict(s)
        n = s.pop('n', None)
        mat = 'air' if n is None else ('mirror' if n == 'mirror' else ideal(n))
        kw = dict(index=i + 1, material=mat, thickness=s.pop('thickness', 0.0), is_stop=bool(s.pop('stop', False)))
        if 'type' in s:
            kw['surface_type'] = s.pop('type')
        kw.update(s)
        o.add_surface(**kw)
    if image:
        if image_n is None:
            o.add_surface(index=len(surfs) + 1)
        else:
            o.add_surface(index=len(surfs) + 1, material=ideal(image_n))
    if aperture is not None:
        o.set_aperture(*aperture)
    o.set_field_type(field_type)
    for f in fields:
        o.add_field(y=f)
    for w, p in wavelengths:
        o.add_wavelength(w, is_primary=p)
    return o


def col(a, k=None):
    """element [k] (or all) of an (n,1) array as list of scalars"""
    a = np.asarray(a, dtype=object)
    if k is not None:
        return a[k].reshape(-1)[0]
    return [x for x in a.reshape(-1)]
