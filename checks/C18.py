"""C18 - catalogue materials return the index their data file defines (DESIGN §6 C18)."""
import math

import numpy as np

from symopt.harness import harness

FUNCS = ['optiland.materials.material_file.MaterialFile', 'optiland.materials.material.Material._levenshtein_distance',
         'optiland.materials.base.BaseMaterial.abbe', 'optiland.materials.abbe.AbbeMaterial']

TOKENS = {}


def _tok_float(x=0.0):
    from symopt.sv import SV
    from symopt import facade
    if isinstance(x, str) and x in TOKENS:
        return TOKENS[x]
    return facade.sym_float(x)


def sym_setup():
    import optiland.materials.material_file as mf
    from symopt import facade
    mf.float = _tok_float

    class NP18(facade.NP):
        def loadtxt(self, f, *a, **k):
            rows = []
            for line in f.read().strip().split('\n'):
                rows.append([_tok_float(t) if t in TOKENS else float(t) for t in line.split()])
            return facade.oarr(rows)
    mf.np = NP18()


class Data:
    """in-memory stand-in for the YAML data file; numbers are symbols (tokens in sym mode)"""

    def __init__(self, ctx):
        self.ctx = ctx

    def num(self, name, **kw):
        v = self.ctx.real(name, **kw)
        if self.ctx.sym:
            TOKENS['@' + name] = v
            return v, '@' + name
        return v, repr(float(v))


def material_from(ctx, blocks):
    from optiland.materials.material_file import MaterialFile
    m = MaterialFile.__new__(MaterialFile)
    m.filename = '<generated>'
    m.coefficients = []
    m._k_wavelength = None
    m._k = None
    m._n_formula = None
    m._n_wavelength = None
    m._n = None
    m.reference_data = None
    m.formula_map = {'formula 1': m._formula_1, 'formula 2': m._formula_2, 'formula 3': m._formula_3, 'formula 4': m._formula_4,
                     'formula 5': m._formula_5, 'formula 6': m._formula_6, 'formula 7': m._formula_7, 'formula 8': m._formula_8,
                     'formula 9': m._formula_9, 'tabulated n': m._tabulated_n, 'tabulated nk': m._tabulated_n}
    m._parse_file({'DATA': blocks})
    return m


def cases_formulas(tier):
    out = []
    for f in (1, 2, 6):
        for terms in ((1, 2) if tier == 'quick' else (1, 2, 3)):
            out.append(dict(f=f, terms=terms, exps=None))
    for f in (3, 5):
        out.append(dict(f=f, terms=1, exps=(2,)))
        out.append(dict(f=f, terms=2, exps=(2, -2)))
        out.append(dict(f=f, terms=2, exps=(-2, 4)))
        out.append(dict(f=f, terms=2, exps=(-1, 1)))         # odd powers of the wavelength (liquids: n = A + B / w + ...)
    out.append(dict(f=4, terms=0, exps=(2, 2, 0, 2)))
    out.append(dict(f=4, terms=0, exps=(0, 1, 2, 2)))       # numerator exponents differ (c[2] != c[6])
    out.append(dict(f=4, terms=1, exps=(2, 1, 0, 2, -2)))
    out.append(dict(f=7, terms=0, exps=None))
    out.append(dict(f=7, terms=2, exps=None))
    out.append(dict(f=8, terms=0, exps=None))
    out.append(dict(f=9, terms=0, exps=None))
    return out


@harness('C18', 'H1_formulas', cases=cases_formulas, funcs=FUNCS,
         bounds='all nine dispersion formulas with 1-2 (thorough 3) terms, symbolic coefficients and wavelength; exponent coefficients of '
                'formulas 3/4/5 enumerated from {-2,-1,0,1,2,4}; parsing of the coefficient string through the real _parse_file',
         doc='MaterialFile.n(w) (or its square) equals the refractiveindex.info dispersion formula of the data block; scalar and '
             '1-element array arguments agree')
def h1_formulas(ctx, f, terms, exps):
    D = Data(ctx)
    w = ctx.real('w', lo=0.2, hi=5.0)
    cs, toks = [], []

    def coef(name, **kw):
        v, t = D.num(name, **kw)
        cs.append(v)
        toks.append(t)
        return v

    def const(v):
        cs.append(ctx.const(float(v)))
        toks.append(repr(float(v)))
        return float(v)
    w2 = w * w
    if f in (1, 2, 6):
        c0 = coef('c0')
        rhs = 1 + c0
        for i in range(terms):
            a, b = coef(f'a{i}'), coef(f'b{i}')
            if f == 1:
                ctx.assume(ctx.Not(w2 == b * b))
                rhs = rhs + a * w2 / (w2 - b * b)
            elif f == 2:
                ctx.assume(ctx.Not(w2 == b))
                rhs = rhs + a * w2 / (w2 - b)
            else:
                ctx.assume(ctx.Not(b * w2 == 1))
                rhs = rhs + a / (b - 1 / w2)
        squared = f in (1, 2)
    elif f in (3, 5):
        rhs = coef('c0')
        for i in range(terms):
            a = coef(f'a{i}')
            e = const(exps[i])
            rhs = rhs + a * w ** int(e)
        squared = f == 3
    elif f == 4:
        c0, c1 = coef('c0'), coef('c1')
        e2 = const(exps[0])
        c3 = coef('c3', lo=0.01, hi=3.0)
        e4 = const(exps[3])
        c5 = coef('c5')
        e6 = const(exps[1])
        c7 = coef('c7', lo=0.01, hi=3.0)
        e8 = const(exps[2])
        d1 = w2 - c3 ** int(e4)
        d2 = w2 - c7 ** int(e8)
        ctx.assume(ctx.And(ctx.Not(d1 == 0), ctx.Not(d2 == 0)))
        rhs = c0 + c1 * w ** int(e2) / d1 + c5 * w ** int(e6) / d2
        for i in range(terms):
            a = coef(f'p{i}')
            e = const(exps[4 + i])
            rhs = rhs + a * w ** int(e)
        squared = True
    elif f == 7:
        c0, c1, c2 = coef('c0'), coef('c1'), coef('c2')
        ctx.assume(ctx.Not(w2 == 0.028))
        L = 1 / (w2 - 0.028)
        rhs = c0 + c1 * L + c2 * L * L
        for i in range(terms):
            a = coef(f'p{i}')
            rhs = rhs + a * w ** (2 * (i + 1))
        squared = False
    elif f == 8:
        c0, c1, c2, c3 = coef('c0'), coef('c1'), coef('c2'), coef('c3')
        ctx.assume(ctx.Not(w2 == c2))
        b = c0 + c1 * w2 / (w2 - c2) + c3 * w2
        ctx.assume(ctx.Not(b == 1))
        rhs = (1 + 2 * b) / (1 - b)
        squared = True
    else:
        c0, c1, c2, c3, c4, c5 = (coef(f'c{i}') for i in range(6))
        ctx.assume(ctx.And(ctx.Not(w2 == c2), ctx.Not((w - c4) * (w - c4) + c5 == 0)))
        rhs = c0 + c1 / (w2 - c2) + c3 * (w - c4) / ((w - c4) * (w - c4) + c5)
        squared = True
    m = material_from(ctx, [{'type': f'formula {f}', 'coefficients': ' '.join(toks)}])
    ctx.oblige('coefficients_parsed', len(m.coefficients) == len(cs))
    n = ctx.val(m.n(w))
    na = ctx.val(m.n(ctx.arr(w)))
    if squared:
        if ctx.finite(n):
            ctx.oblige('n_squared_is_formula', ctx.eq(n * n, rhs))
            ctx.oblige('n_nonnegative', ctx.le(0.0, n))
        else:
            ctx.oblige('nan_only_if_formula_negative', rhs < 0)
    else:
        ctx.oblige('n_is_formula', ctx.eq(n, rhs))
    if ctx.finite(n) and ctx.finite(na):
        ctx.oblige('scalar_equals_array', ctx.eq(n, na))
        ctx.observe('n', n)
    else:
        ctx.oblige('scalar_equals_array', (not ctx.finite(n)) and (not ctx.finite(na)))


@harness('C18', 'H2_malformed', funcs=FUNCS, cases=lambda tier: [dict(f=f, ncoef=k) for f, k in ((1, 2), (2, 4), (3, 2), (4, 5), (5, 2),
                                                                                                 (6, 2), (7, 2), (8, 3), (8, 5), (9, 5), (9, 7))],
         bounds='coefficient lists whose length does not fit the formula',
         doc='malformed coefficient counts raise ValueError instead of returning a number')
def h2_malformed(ctx, f, ncoef):
    toks = [repr(0.5 + 0.1 * i) for i in range(ncoef)]
    m = material_from(ctx, [{'type': f'formula {f}', 'coefficients': ' '.join(toks)}])
    ctx.oblige('rejected', ctx.raises((ValueError,), m.n, 0.55))


@harness('C18', 'H3_tabulated', funcs=FUNCS, cases=lambda tier: [dict(kind=k, rows=r) for k in ('n', 'nk', 'n+k') for r in (2, 3)],
         bounds='tables of 2-3 rows with symbolic wavelengths (increasing), n and k values; symbolic query wavelength inside and outside the range',
         doc='tabulated n / nk / k blocks: n(w) and k(w) are the linear interpolation of the file\'s table (clamped at the ends); '
             'column mapping of "tabulated nk"; scalar and array arguments agree')
def h3_tabulated(ctx, kind, rows):
    D = Data(ctx)
    ws, ns, ks = [], [], []
    lines, klines = [], []
    prev = None
    for i in range(rows):
        if prev is None:
            wv, tw = D.num(f'w{i}', lo=0.2, hi=1.0)
        else:
            wv, tw = D.num(f'w{i}', lo=0.2, hi=20.0)
            ctx.assume(wv > prev)
        prev = wv
        nv, tn = D.num(f'n{i}', lo=1.0, hi=4.0)
        kv, tk = D.num(f'k{i}', lo=0.0, hi=5.0)
        ws.append(wv)
        ns.append(nv)
        ks.append(kv)
        lines.append(f'{tw} {tn} {tk}' if kind == 'nk' else f'{tw} {tn}')
        klines.append(f'{tw} {tk}')
    blocks = [{'type': 'tabulated nk' if kind == 'nk' else 'tabulated n', 'data': '\n'.join(lines)}]
    if kind == 'n+k':
        blocks.append({'type': 'tabulated k', 'data': '\n'.join(klines)})
    m = material_from(ctx, blocks)
    q = ctx.real('q', lo=0.1, hi=25.0)

    def interp(tab):
        if bool(q <= ws[0]):
            return tab[0]
        if bool(q >= ws[-1]):
            return tab[-1]
        for i in range(rows - 1):
            if bool(q <= ws[i + 1]):
                return tab[i] + (tab[i + 1] - tab[i]) * (q - ws[i]) / (ws[i + 1] - ws[i])
    ctx.oblige('n_interpolated', ctx.eq(m.n(q), interp(ns)))
    ctx.oblige('n_array', ctx.eq(m.n(ctx.arr(q)), interp(ns)))
    if kind in ('nk', 'n+k'):
        ctx.oblige('k_interpolated', ctx.eq(m.k(q), interp(ks)))
    ctx.observe('n', m.n(q))


@harness('C18', 'H4_abbe_number', funcs=FUNCS, cases=lambda tier: [dict()],
         bounds='formula-2 material with one symbolic term',
         doc='abbe() = (n_d - 1) / (n_F - n_C) with the d, F, C wavelengths 0.5875618, 0.4861327, 0.6562725 um')
def h4_abbe(ctx):
    D = Data(ctx)
    c0, t0 = D.num('c0', lo=0.5, hi=3.0)
    a, ta = D.num('a', lo=0.0, hi=2.0)
    b, tb = D.num('b', lo=0.001, hi=0.05)
    m = material_from(ctx, [{'type': 'formula 2', 'coefficients': f'{t0} {ta} {tb}'}])

    V = ctx.val(m.abbe())
    nd_, nF, nC = ctx.val(m.n(0.5875618)), ctx.val(m.n(0.4861327)), ctx.val(m.n(0.6562725))   # (m.n itself is H1's subject)
    if ctx.finite(V) and all(ctx.finite(v) for v in (nd_, nF, nC)):
        ctx.oblige('abbe_number', ctx.eq(V * (nF - nC), nd_ - 1))
        ctx.observe('V', V)


def lev_ref(ctx, a, b):
    """textbook Levenshtein distance over symbolic characters (If-terms, no forking)"""
    import z3
    from symopt.sv import SV
    la, lb = len(a), len(b)
    d = [[None] * (lb + 1) for _ in range(la + 1)]
    for i in range(la + 1):
        d[i][0] = ctx.const(float(i))
    for j in range(lb + 1):
        d[0][j] = ctx.const(float(j))

    def mn(x, y):
        if ctx.sym:
            return ctx.If(x <= y, x, y) if not (isinstance(x, float) and isinstance(y, float)) else min(x, y)
        return min(x, y)
    for i in range(1, la + 1):
        for j in range(1, lb + 1):
            same = (a[i - 1] == b[j - 1])
            cost = ctx.If(same, 0.0, 1.0) if ctx.sym and not isinstance(same, bool) else (0.0 if same else 1.0)
            d[i][j] = mn(mn(d[i - 1][j] + 1, d[i][j - 1] + 1), d[i - 1][j - 1] + cost)
    return d[la][lb]


@harness('C18', 'H5_levenshtein', funcs=FUNCS,
         cases=lambda tier: [dict(la=i, lb=j) for i in range(0, 4) for j in range(0, 4) if (i, j) != (0, 0)] +
         ([dict(la=4, lb=4), dict(la=4, lb=2)] if tier == 'thorough' else []),
         bounds='strings of length <= 3 (thorough 4) over symbolic characters (each character an integer code 0..3: only equality matters)',
         doc='the name-ranking kernel Material._levenshtein_distance is the Levenshtein distance: equals the textbook recurrence, is 0 '
             'exactly for equal strings, symmetric, and at least the length difference')
def h5_levenshtein(ctx, la, lb):
    from optiland.materials.material import Material
    a = [ctx.integer(f'a{i}', 0, 3) for i in range(la)]
    b = [ctx.integer(f'b{i}', 0, 3) for i in range(lb)]
    if not ctx.sym:
        sa, sb = ''.join(chr(97 + int(c)) for c in a), ''.join(chr(97 + int(c)) for c in b)
        d = Material._levenshtein_distance(sa, sb)
        d2 = Material._levenshtein_distance(sb, sa)
        a, b = list(sa), list(sb)
    else:
        d = Material._levenshtein_distance(a, b)
        d2 = Material._levenshtein_distance(b, a)
    ctx.oblige('equals_textbook_distance', ctx.eq(float(d), lev_ref(ctx, a, b)))
    ctx.oblige('symmetric', d == d2)
    ctx.oblige('at_least_length_difference', d >= abs(la - lb))
    equal = (la == lb) and all(bool(x == y) for x, y in zip(a, b))
    ctx.oblige('zero_iff_equal', (d == 0) == equal)


@harness('C18', 'H6_model_glass', funcs=FUNCS, cases=lambda tier: [dict()],
         bounds='(n_d, V_d) anywhere in the glass-map box [1.45, 1.95] x [20, 85] (symbolic); fit coefficients read from the .npy at run time',
         doc='a model glass built from (n_d, V_d) reproduces n_d at the d line to within 0.02 and has normal dispersion (n_F > n_C), '
             'with an Abbe number of the right order (the accuracy of the fit itself is data, reported not proved)')
def h6_model_glass(ctx):
    from optiland.materials import AbbeMaterial
    nd = ctx.real('nd', lo=1.45, hi=1.95)
    vd = ctx.real('vd', lo=20.0, hi=85.0)
    m = AbbeMaterial(nd, vd)
    n_d = ctx.val(m.n(0.5875618))
    n_F = ctx.val(m.n(0.4861327))
    n_C = ctx.val(m.n(0.6562725))
    ctx.observe('n_d', n_d)
    ctx.oblige('nd_reproduced_within_0.02', ctx.And(ctx.le(n_d - nd, 0.02), ctx.le(nd - n_d, 0.02)))
    ctx.oblige('k_is_zero', m.k(0.55) == 0)
    ctx.oblige('abbe_formula', ctx.eq(m.abbe if False else (n_d - 1) / (n_F - n_C), BaseAbbe(m)) if ctx.finite(n_F - n_C) else True)


def BaseAbbe(m):
    from optiland.materials.base import BaseMaterial
    return BaseMaterial.abbe(m)
