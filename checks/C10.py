"""C10 - Zernike families are correctly indexed, normalised, and recovered by fitting (DESIGN §6 C10)."""
import math

import numpy as np

from symopt.harness import harness

FUNCS = ['optiland.zernike.ZernikeStandard', 'optiland.zernike.ZernikeFringe', 'optiland.zernike.ZernikeNoll',
         'optiland.zernike.ZernikeFit._objective', 'optiland.zernike.ZernikeFit._fit', 'optiland.zernike.ZernikeFit.coeffs']


def family(name, coeffs=None):
    from optiland import zernike as z
    cls = {'standard': z.ZernikeStandard, 'fringe': z.ZernikeFringe, 'noll': z.ZernikeNoll}[name]
    return cls(coeffs) if coeffs is not None else cls()


def rule(ctx, fam, n, m):
    """published index rule: position in the family's sequence (first term = FIRST[fam])"""
    am = ctx.abs(m)
    if fam == 'standard':
        return (n * (n + 2) + m) / 2
    if fam == 'fringe':
        fl = (ctx.If(m < 0, 1.0, 0.0) if ctx.sym else (1.0 if m < 0 else 0.0))     # floor((1 - sgn m) / 2)
        h = 1 + (n + am) / 2
        return h * h - 2 * am + fl
    # Noll
    mod = n % 4
    low = ctx.Or(mod == 0, mod == 1)
    c0 = ctx.Or(ctx.And(m > 0, low), ctx.And(m < 0, ctx.Not(low)))
    c = ctx.If(c0, 0.0, 1.0) if ctx.sym else (0.0 if c0 else 1.0)
    return n * (n + 1) / 2 + am + c


FIRST = dict(standard=0, fringe=1, noll=1)


@harness('C10', 'H1_index_rules', funcs=FUNCS, cases=lambda tier: [dict(fam=f) for f in ('standard', 'fringe', 'noll')],
         bounds='all 120 positions of each family; candidate pairs (n, m) symbolic integers with 0 <= n <= 30, |m| <= n, n-m even',
         doc='position j of the index list holds the unique valid pair (n, m) that the published rule maps to j: the solver inverts the '
             'rule (no other valid pair maps to j), so the list is exactly the rule\'s enumeration, in order, without repetition')
def h1_index(ctx, fam):
    z = family(fam)
    idx = z.indices
    ctx.oblige('count_120', len(idx) == 120)
    n = ctx.integer('n', 0, 30)
    m = ctx.integer('m', -30, 30)
    valid = ctx.And(m <= n, -n <= m, ((n - m) % 2) == 0)
    ctx.assume(valid)
    j_sym = rule(ctx, fam, n, m)
    seen = set()
    for p, (nj, mj) in enumerate(idx[:120]):
        j = p + FIRST[fam]
        # the stored pair satisfies the rule (concrete arithmetic) ...
        jn = rule(ctx, fam, ctx.const(nj), ctx.const(mj)) if ctx.sym else rule(ctx, fam, nj, mj)
        ctx.oblige(f'rule_holds_{p}', ctx.eq(jn, float(j)) and nj >= 0 and abs(mj) <= nj and (nj - mj) % 2 == 0)
        # ... and is the only valid pair that does (for ALL integers n, m in the bound)
        ctx.oblige(f'unique_{p}', ctx.Implies(j_sym == j, ctx.And(n == nj, m == mj)))
        ctx.oblige(f'no_repeat_{p}', (nj, mj) not in seen)
        seen.add((nj, mj))


def radial_oracle(n, m, r):
    """Zernike radial polynomial by Kintner's three-term recurrence (independent of the factorial sum)"""
    m = abs(m)
    R = {}
    R[m] = r ** m if m > 0 else r * 0 + 1
    if n == m:
        return R[m]
    R[m + 2] = ((m + 2) * r * r - (m + 1)) * R[m]
    k = m + 4
    while k <= n:
        num = 2 * (k - 1) * (2 * k * (k - 2) * r * r - m * m - k * (k - 2)) * R[k - 2] - k * (k + m - 2) * (k - m - 2) * R[k - 4]
        R[k] = num / ((k + m) * (k - m) * (k - 2))
        k += 2
    return R[n]


@harness('C10', 'H2_radial', funcs=FUNCS, cases=lambda tier: [dict(nmax=8)] + ([dict(nmax=14)] if tier == 'thorough' else [dict(nmax=12)]),
         bounds='all (n, m) with n <= 12 (thorough 14), symbolic radius r: polynomial identity for ALL r',
         doc='_radial_term(n, m, r) equals the Zernike radial polynomial defined by the three-term recurrence from R_m^m = r^m, for all r; '
             'hence unit value at the pupil edge; normalisation constants: N^2 (1 + [m = 0]) = 2n + 2 (Standard, Noll), 1 (Fringe)')
def h2_radial(ctx, nmax):
    z = family('standard')
    r = ctx.real('r', lo=0.0, hi=1.0)
    lo = 0 if nmax <= 8 else 9
    for n in range(lo, nmax + 1):
        for m in range(-n, n + 1, 2):
            got = z._radial_term(n, m, r)
            ctx.oblige(f'radial_{n}_{m}', ctx.eq(got, radial_oracle(n, m, r)))
            ctx.oblige(f'edge_{n}_{m}', ctx.eq(z._radial_term(n, m, 1.0), 1.0))
    ctx.observe('R42', z._radial_term(4, 2, r))


@harness('C10', 'H3_norm', funcs=FUNCS, cases=lambda tier: [dict(fam=f) for f in ('standard', 'noll', 'fringe')],
         bounds='symbolic integers 0 <= n <= 40, |m| <= n',
         doc='normalisation constants: N(n,m)^2 (1 + [m = 0]) = 2n + 2 for Standard and Noll (orthonormality over the unit disk, given the '
             'textbook orthogonality of the radial polynomials), N = 1 for Fringe (unit edge value)')
def h3_norm(ctx, fam):
    z = family(fam)
    n = ctx.integer('n', 0, 40)
    m = ctx.integer('m', -40, 40)
    ctx.assume(ctx.And(m <= n, -n <= m))
    N = ctx.val(z._norm_constant(n, m))
    if fam == 'fringe':
        ctx.oblige('fringe_unit', ctx.eq(N, 1.0))
        return
    is0 = bool(m == 0)
    ctx.oblige('norm_squared', ctx.eq(N * N * (2 if is0 else 1), 2 * n + 2))
    ctx.oblige('norm_positive', ctx.le(0.0, N))
    ctx.observe('N', N)


def basis_oracle(ctx, fam, n, m, r, phi):
    """library convention for the azimuthal factor: cos(m phi) for m >= 0, sin(m phi) for m < 0"""
    if fam == 'fringe':
        N = 1.0
    else:
        N = math.sqrt((2 * n + 2) / (2 if m == 0 else 1))
    az = ctx.cos(m * phi) if m >= 0 else ctx.sin(m * phi)
    return N * radial_oracle(n, m, r) * az


@harness('C10', 'H4_linear', funcs=FUNCS, cases=lambda tier: [dict(fam=f, N=4) for f in ('standard', 'fringe', 'noll')] +
         ([dict(fam='fringe', N=9)] if tier == 'thorough' else [dict(fam='fringe', N=6)]),
         bounds='first N <= 6 (thorough 9) terms, symbolic coefficient vectors, weights, radius and angle',
         doc='poly(r, phi) is linear in the coefficient vector, and equals the sum of coefficient x basis polynomial of the listed (n, m)')
def h4_linear(ctx, fam, N):
    r = ctx.real('r', lo=0.0, hi=1.0)
    phi = ctx.real('phi', lo=-3.0, hi=3.0)
    c = [ctx.real(f'c{i}') for i in range(N)]
    d = [ctx.real(f'd{i}') for i in range(N)]
    a, b = ctx.real('a'), ctx.real('b')
    zc, zd = family(fam, c), family(fam, d)
    zs = family(fam, [a * x + b * y for x, y in zip(c, d)])
    pc, pd, ps = zc.poly(r, phi), zd.poly(r, phi), zs.poly(r, phi)
    ctx.oblige('linear', ctx.eq(ps, a * pc + b * pd))
    want = 0.0
    for k in range(N):
        n_, m_ = zc.indices[k]
        want = want + c[k] * basis_oracle(ctx, fam, n_, m_, r, phi)
    ctx.oblige('sum_of_terms', ctx.eq(pc, want))
    ctx.oblige('terms_count', len(zc.terms(r, phi)) == N)
    ctx.observe('p', pc)


@harness('C10', 'H5_all_terms_evaluate', funcs=FUNCS, cases=lambda tier: [dict(fam=f) for f in ('standard', 'fringe', 'noll')],
         bounds='120-coefficient vectors with a single unit entry at each position; concrete evaluation at the pupil edge',
         doc='every one of the 120 listed polynomials evaluates (terms() returns 120 values) and has unit radial value at the pupil edge')
def h5_all_terms(ctx, fam):
    z = family(fam, [1.0] * 120)
    ts = z.terms(1.0, 0.0)
    ctx.oblige('all_120_terms_evaluated', len(ts) == 120)
    for p, (n_, m_) in enumerate(z.indices[:120]):
        ctx.oblige(f'edge_value_{p}', ctx.eq(z._radial_term(n_, m_, 1.0), 1.0, rel=1e-6, abs_=1e-6))


def plain_least_squares_call(ctx, fun, x0, k, N):
    """Contract of the stubbed solver: the stub stands for 'the minimiser of sum(fun(x)**2) over all of R^N' only if the library asks
    for exactly that - the default linear loss, no bounds, a start vector of N entries.  Anything else (a robust loss, box bounds,
    a shorter start vector) makes the returned coefficients something other than the least-squares fit of the data."""
    ok = k.get('loss', 'linear') == 'linear' and len(x0) == N
    b = k.get('bounds')
    if b is not None:
        lo, hi = b
        ok = ok and bool(np.all(np.isneginf(np.asarray(lo, dtype=float)))) and bool(np.all(np.isposinf(np.asarray(hi, dtype=float))))
    extra = set(k) - {'loss', 'bounds', 'jac', 'method', 'ftol', 'xtol', 'gtol', 'x_scale', 'max_nfev', 'verbose', 'tr_solver', 'tr_options',
                      'jac_sparsity', 'diff_step', 'f_scale', 'args', 'kwargs'}
    ctx.oblige('solver_is_asked_for_the_plain_least_squares_minimiser', ok and not extra and not k.get('args') and not k.get('kwargs'))



@harness('C10', 'H6_fit', funcs=FUNCS, cases=lambda tier: [dict(fam=f) for f in ('fringe', 'standard', 'noll')],
         stubs=['scipy.optimize.least_squares -> returns an arbitrary vector x (that it returns the least-squares minimiser is assumed; that the library asks for the plain minimiser - linear loss, no bounds, N unknowns - is an obligation)'],
         bounds='N = 4 terms, 3 symbolic sample points, symbolic generating coefficients; two fit objects alive at once',
         doc='ZernikeFit._objective(c) = poly_c(points) - data: zero at the generating coefficients, affine in c, linear in the data; '
             'coefficients reported by one fit are not disturbed by another fit of the same family')
def h6_fit(ctx, fam):
    import optiland.zernike as zm
    N = 4
    pts = [(ctx.real(f'x{i}', lo=-0.7, hi=0.7), ctx.real(f'y{i}', lo=-0.7, hi=0.7)) for i in range(3)]
    ctx.assume(ctx.And(*[ctx.Not(ctx.And(x == 0, y == 0)) for x, y in pts]))
    ctrue = [ctx.real(f'c{i}') for i in range(N)]
    zt = family(fam, ctrue)
    idx = zt.indices
    # data generated independently of Zernike*.poly
    data = []
    for (x, y) in pts:
        rr = ctx.sqrt(x * x + y * y)
        cphi, sphi = x / rr, y / rr
        val = 0.0
        for k in range(N):
            n_, m_ = idx[k]
            Nk = 1.0 if fam == 'fringe' else math.sqrt((2 * n_ + 2) / (2 if m_ == 0 else 1))
            # cos(m phi), sin(m phi) from (cos phi, sin phi) by the angle-sum formulas
            cm, sm = 1.0, 0.0
            for _ in range(abs(m_)):
                cm, sm = cm * cphi - sm * sphi, sm * cphi + cm * sphi
            az = cm if m_ >= 0 else -sm
            val = val + ctrue[k] * Nk * radial_oracle(n_, m_, rr) * az
        data.append(val)
    ret = [[ctx.real(f'ret{j}_{i}') for i in range(N)] for j in range(2)]
    calls = []

    class R:
        pass

    def stub(fun, x0, **k):
        plain_least_squares_call(ctx, fun, x0, k, N)
        r_ = R()
        r_.x = ctx.arr(*ret[len(calls)])
        calls.append(1)
        return r_
    zm.least_squares = stub
    xs, ys = ctx.arr(*[p[0] for p in pts]), ctx.arr(*[p[1] for p in pts])
    fit1 = zm.ZernikeFit(xs, ys, ctx.arr(*data), zernike_type=fam, num_terms=N)
    res = ctx.vals(fit1._objective(ctx.arr(*ctrue)))
    for i, v in enumerate(res):
        ctx.oblige(f'zero_residual_at_generating_coefficients_{i}', ctx.eq(v, 0.0))
    # affine in c: objective(c + e) - objective(c) does not depend on the data
    e = [ctx.real(f'e{i}') for i in range(N)]
    r1 = ctx.vals(fit1._objective(ctx.arr(*[a + b for a, b in zip(ctrue, e)])))
    ze = family(fam, e)
    for i, (x, y) in enumerate(pts):
        ctx.oblige(f'affine_{i}', ctx.eq(r1[i], ze.poly(fit1.radius[i], fit1.phi[i])))
    fit1._fit()        # second call of the stub: ret[1]
    c1 = ctx.vals(fit1.coeffs)
    fit2 = None
    calls.clear()
    fit2 = zm.ZernikeFit(xs, ys, ctx.arr(*data), zernike_type=fam, num_terms=N)     # returns ret[0]
    for i in range(N):
        ctx.oblige(f'first_fit_keeps_its_coefficients_{i}', ctx.eq(ctx.vals(fit1.coeffs)[i], ret[1][i]))
        ctx.oblige(f'second_fit_reports_its_own_{i}', ctx.eq(ctx.vals(fit2.coeffs)[i], ret[0][i]))
    ctx.observe('res0', res[0])


@harness('C10', 'H7_fit_many_terms', funcs=FUNCS, cases=lambda tier: [dict(fam=f) for f in ('fringe', 'standard', 'noll')],
         stubs=['scipy.optimize.least_squares -> returns an arbitrary vector x'],
         bounds='N = 37 terms (one more than the default length of a freshly constructed polynomial object), one concrete sample point (0.3, 0.4), '
                '37 symbolic trial coefficients',
         doc='every one of the num_terms coefficients takes part in the fit objective: changing the k-th trial coefficient by d changes the residual '
             'by d times the k-th term of the family at the sample point (checked for the first, the 36th and the 37th coefficient)')
def h7_fit_many(ctx, fam):
    import optiland.zernike as zm
    N = 37
    c = [ctx.real(f'c{i}', lo=-10.0, hi=10.0) for i in range(N)]
    d = ctx.real('d', lo=-10.0, hi=10.0)
    ret = [ctx.real(f'ret{i}', lo=-10.0, hi=10.0) for i in range(N)]

    class R:
        pass

    def stub(fun, x0, **k):
        plain_least_squares_call(ctx, fun, x0, k, N)
        r_ = R()
        r_.x = ctx.arr(*ret)
        return r_
    zm.least_squares = stub
    x, y = 0.3, 0.4
    fit = zm.ZernikeFit(ctx.arr(x), ctx.arr(y), ctx.arr(ctx.real('z0', lo=-10.0, hi=10.0)), zernike_type=fam, num_terms=N)
    base = ctx.val(fit._objective(ctx.arr(*c)))
    ctx.oblige('all_coefficients_reported', len(ctx.vals(fit.coeffs)) == N)
    ref = family(fam, [0.0] * N)
    for k in (0, 35, 36):
        c2 = list(c)
        c2[k] = c2[k] + d
        got = ctx.val(fit._objective(ctx.arr(*c2)))
        n_, m_ = ref.indices[k]
        term = ctx.val(ref.get_term(1.0, n_, m_, ctx.val(fit.radius), ctx.val(fit.phi)))
        # (to within 1e-9: the library multiplies c N R A from the left, the oracle has the rounded product N R A)
        ctx.oblige(f'coefficient_{k + 1}_takes_part', ctx.approx(got - base, d * term, 1e-9))
        ctx.oblige(f'term_{k + 1}_does_not_vanish_at_the_sample_point', ctx.Not(ctx.approx(term, 0.0, 1e-6)))
    ctx.observe('d', d)
