"""C19 - saving and reloading a lens preserves its behaviour (DESIGN §6 C19)."""
import json
import math
import os
import tempfile

import numpy as np

from symopt.harness import harness
from checks.common import ideal
from checks.C01 import snapshot, frame, chain_ok
from checks.C02 import mkrays

FUNCS = ['optiland.optic.Optic.to_dict', 'optiland.optic.Optic.from_dict', 'optiland.fileio.optiland_handler.save_obj_to_json',
         'optiland.fileio.optiland_handler.load_obj_from_json', 'optiland.surfaces.standard_surface.Surface.to_dict',
         'optiland.surfaces.standard_surface.Surface.from_dict', 'optiland.surfaces.object_surface.ObjectSurface.to_dict',
         'optiland.surfaces.surface_group.SurfaceGroup.to_dict', 'optiland.geometries.base.BaseGeometry.from_dict',
         'optiland.geometries.standard.StandardGeometry.to_dict', 'optiland.geometries.even_asphere.EvenAsphere.to_dict',
         'optiland.geometries.polynomial.PolynomialGeometry.to_dict', 'optiland.geometries.chebyshev.ChebyshevPolynomialGeometry.to_dict',
         'optiland.materials.ideal.IdealMaterial.to_dict', 'optiland.materials.abbe.AbbeMaterial.to_dict',
         'optiland.coatings.SimpleCoating.to_dict', 'optiland.coatings.FresnelCoating.to_dict', 'optiland.scatter.GaussianBSDF.to_dict',
         'optiland.physical_apertures.RadialAperture.to_dict', 'optiland.fields.FieldGroup.to_dict', 'optiland.wavelength.WavelengthGroup.to_dict',
         'optiland.aperture.Aperture.to_dict', 'optiland.pickup.PickupManager.to_dict', 'optiland.solves.SolveManager.to_dict',
         'optiland.coordinate_system.CoordinateSystem.to_dict']

JSON_TYPES = (type(None), bool, int, float, str)


def leaves(ctx, d, path=''):
    """flatten a dictionary form into {path: leaf}"""
    out = {}
    if isinstance(d, dict):
        for k, v in d.items():
            out.update(leaves(ctx, v, f'{path}/{k}'))
    elif isinstance(d, (list, tuple)):
        out[path + '/#len'] = len(d)
        for i, v in enumerate(d):
            out.update(leaves(ctx, v, f'{path}/{i}'))
    else:
        out[path] = d
    return out


def is_number(ctx, v):
    return type(v).__name__ == 'SV' or (isinstance(v, (int, float, np.floating, np.integer)) and not isinstance(v, bool))


def json_ok(ctx, v):
    if type(v).__name__ == 'SV':
        return True      # a python float in the real run
    if isinstance(v, (np.floating, np.integer)):
        return isinstance(v, float)       # np.float64 is a float subclass; other numpy scalars are not serialisable
    return isinstance(v, JSON_TYPES)


def same_leaf(ctx, a, b):
    if is_number(ctx, a) and is_number(ctx, b):
        if not (ctx.finite(a) and ctx.finite(b)):
            return (not ctx.finite(a)) and (not ctx.finite(b)) and (ctx.isnan(a) == ctx.isnan(b)) and \
                (ctx.isnan(a) or bool(ctx.val(a) == ctx.val(b)))
        return ctx.eq(a, b)
    if isinstance(a, np.ndarray) or isinstance(b, np.ndarray):
        av, bv = ctx.vals(a), ctx.vals(b)
        return len(av) == len(bv) and ctx.And(*[same_leaf(ctx, x, y) for x, y in zip(av, bv)])
    if isinstance(a, JSON_TYPES) and isinstance(b, JSON_TYPES):
        return a == b
    return type(a) is type(b)    # opaque objects: only their type can be compared (and they fail the JSON-type obligation)


def compare_dicts(ctx, d1, d2, tag):
    l1, l2 = leaves(ctx, d1), leaves(ctx, d2)
    ctx.oblige(f'{tag}:same_keys', set(l1) == set(l2))
    for k in l1:
        if k in l2:
            ctx.oblige(f'{tag}:{k}', same_leaf(ctx, l1[k], l2[k]))


def roundtrip(ctx, o, tag='rt', trace=True, paraxial=True):
    from optiland.optic import Optic
    d = o.to_dict()
    for k, v in leaves(ctx, d).items():
        ctx.oblige(f'{tag}:json_type:{k}', json_ok(ctx, v))
    o2 = Optic.from_dict(d)
    d2 = o2.to_dict()
    compare_dicts(ctx, d, d2, f'{tag}:dict')
    s1, s2 = snapshot(ctx, o), snapshot(ctx, o2)
    frame(ctx, s1, s2, set(), tag=f':{tag}:prescription')
    ctx.oblige(f'{tag}:media_chained_values', all(
        bool(ctx.val(a.material_post.n(0.55)) == ctx.val(b.material_pre.n(0.55)))
        for a, b in zip(o2.surface_group.surfaces[:-1], o2.surface_group.surfaces[1:]) if b.material_pre is not None))
    if paraxial:
        for nm in ('f2', 'EPL'):
            a, b = getattr(o.paraxial, nm)(), getattr(o2.paraxial, nm)()
            if ctx.finite(a) and ctx.finite(b):
                ctx.oblige(f'{tag}:paraxial_{nm}', ctx.eq(a, b))
            else:
                ctx.oblige(f'{tag}:paraxial_{nm}', (not ctx.finite(a)) and (not ctx.finite(b)))
    if not ctx.sym:
        # the real run also goes through a JSON file
        from optiland.fileio.optiland_handler import save_optiland_file, load_optiland_file
        fd, fn = tempfile.mkstemp(suffix='.json')
        os.close(fd)
        try:
            ok = True
            try:
                save_optiland_file(o, fn)
                o3 = load_optiland_file(fn)
            except TypeError as e:
                ok = False
            ctx.oblige(f'{tag}:json_file_roundtrip_possible', ok)
            if ok:
                compare_dicts(ctx, json.loads(json.dumps(d)), o3.to_dict(), f'{tag}:json')
        finally:
            os.unlink(fn)
    return o2


PIN = dict(t0=40.0, t1=3.0, n1=1.5, R1=30.0, k1=-0.5, rmax=6.0, rmin=0.5, T=0.9, Rc=0.05, sigma=0.1, dx=0.3, dy=-0.2, rx=0.05, ry=-0.04,
           t2=20.0, R2=-25.0, k2=0.2, apv=4.0, na=0.1, fy=5.0, vx=0.1, vy=0.2, w1=0.45, w2=0.55, w3=650.0)


def build(ctx, feats, pin=False):
    from optiland.optic import Optic
    if pin:
        outer = ctx

        class _P:
            def __getattr__(self, a):
                return getattr(outer, a)

            def real(self, name, **kw):
                if name in ('rx', 'ry'):
                    return outer.const(PIN[name])      # concrete tilt angles: their sines/cosines are plain numbers
                return outer.pinned(name, PIN[name]) if name in PIN else outer.real(name, **kw)
        ctx = _P()
    from optiland.coatings import SimpleCoating
    from optiland.physical_apertures import RadialAperture
    from optiland.scatter import GaussianBSDF, LambertianBSDF
    from optiland.materials import AbbeMaterial
    o = Optic()
    t0 = ctx.real('t0', lo=1.0, hi=100.0) if 'finite' in feats else np.inf
    o.add_surface(index=0, thickness=t0)
    kw1 = dict(index=1, thickness=ctx.real('t1', lo=0.1, hi=10.0), material=ideal(ctx.real('n1', lo=1.0, hi=4.0)), is_stop=True)
    if 'two_catalogues' in feats:
        kw1['material'] = ('SF4', 'schott')          # the same glass name from two manufacturers' catalogues
    if 'flat1' not in feats:
        kw1.update(radius=ctx.real('R1', ne=0), conic=ctx.real('k1'))
    if 'aperture' in feats:
        kw1['aperture'] = RadialAperture(ctx.real('rmax', lo=0.1, hi=50.0), ctx.real('rmin', lo=0.0, hi=0.1))
    if 'coating' in feats:
        kw1['coating'] = SimpleCoating(ctx.real('T', lo=0.0, hi=1.0), ctx.real('Rc', lo=0.0, hi=1.0))
    if 'fresnel' in feats:
        kw1['coating'] = 'fresnel'
    if 'bsdf' in feats:
        kw1['bsdf'] = GaussianBSDF(0.25)     # (concrete: the value is captured by a numba-compiled closure)
    if 'tilt' in feats:
        kw1.update(dx=ctx.real('dx'), dy=ctx.real('dy'), rx=ctx.real('rx', lo=-0.5, hi=0.5), ry=ctx.real('ry', lo=-0.5, hi=0.5))
    o.add_surface(**kw1)
    kind2 = [f for f in ('even_asphere', 'polynomial', 'chebyshev', 'plane', 'mirror') if f in feats]
    kind2 = kind2[0] if kind2 else 'standard'
    kw2 = dict(index=2, thickness=ctx.real('t2', lo=0.1, hi=50.0))
    if kind2 == 'plane':
        pass
    elif kind2 == 'mirror':
        kw2.update(material='mirror')
        if 'flat1' not in feats:
            kw2.update(radius=ctx.real('R2', ne=0))
    else:
        kw2.update(radius=ctx.real('R2', ne=0), conic=ctx.real('k2'))
        if kind2 == 'even_asphere':
            kw2.update(surface_type='even_asphere', coefficients=[ctx.real('c0'), ctx.real('c1')])
        elif kind2 in ('polynomial', 'chebyshev'):
            kw2.update(surface_type=kind2, coefficients=[[ctx.real('c00'), ctx.real('c01')], [ctx.real('c10'), ctx.real('c11')]])
            if kind2 == 'chebyshev':
                kw2.update(norm_x=10.0, norm_y=12.0)
    if 'abbe' in feats:
        kw2['material'] = AbbeMaterial(ctx.real('nd', lo=1.45, hi=1.9), ctx.real('vd', lo=25.0, hi=70.0))
    if 'two_catalogues' in feats:
        kw2['material'] = ('SF4', 'hikari')
    if 'lambertian' in feats:
        kw2['bsdf'] = LambertianBSDF()
    o.add_surface(**kw2)
    o.add_surface(index=3)
    if 'telecentric' in feats:
        o.set_aperture('objectNA', ctx.real('na', lo=0.01, hi=0.5))
        o.set_field_type('object_height')
        o.obj_space_telecentric = True
    else:
        o.set_aperture('EPD' if 'fno' not in feats else 'imageFNO', ctx.real('apv', lo=0.5, hi=20.0))
        o.set_field_type('object_height' if 'finite' in feats else 'angle')
    o.add_field(y=0.0)
    o.add_field(y=ctx.real('fy', lo=0.1, hi=20.0), vx=ctx.real('vx', lo=0.0, hi=0.5), vy=ctx.real('vy', lo=0.0, hi=0.5))
    o.add_wavelength(ctx.real('w1', lo=0.4, hi=0.5), is_primary=False)
    o.add_wavelength(ctx.real('w2', lo=0.5, hi=0.6), is_primary=True)
    if 'nm' in feats:
        o.add_wavelength(ctx.real('w3', lo=600.0, hi=700.0), unit='nm')
    if 'pickup' in feats:
        o.pickups.add(1, 'radius', 2, scale=ctx.real('pscale', ne=0), offset=ctx.real('poffset'))
    if 'solve' in feats:
        o.solves.add('marginal_ray_height', 3, height=ctx.real('h', lo=-1.0, hi=1.0))
    if 'polarized' in feats:
        from optiland.rays import create_polarization
        o.set_polarization(create_polarization('H'))
    return o


FEATURE_SETS = [
    ('basic',), ('finite', 'aperture', 'coating'), ('tilt', 'even_asphere'), ('polynomial', 'bsdf'), ('chebyshev', 'nm'),
    ('plane', 'fno'), ('mirror',), ('abbe', 'lambertian'), ('pickup',), ('solve',), ('finite', 'telecentric'), ('fresnel',),
    ('polarized',), ('two_catalogues',),
]


@harness('C19', 'H1_roundtrip', funcs=FUNCS, cases=lambda tier: [dict(feats=f) for f in FEATURE_SETS],
         bounds='K=2 lenses covering every registered geometry, medium (ideal, Abbe model, mirror), coating, BSDF, aperture, tilt/decentre, '
                'field/wavelength/unit, aperture type, telecentric flag, pickup and solve; every numeric leaf symbolic',
         doc='Optic.from_dict(o.to_dict()) has a leaf-wise equal dictionary form, the same prescription and equal paraxial terms; '
             'every leaf of the dictionary form is a JSON type; (concrete run: the JSON file round trip works and agrees)')
def h1_roundtrip(ctx, feats):
    o = build(ctx, feats)
    o2 = roundtrip(ctx, o, paraxial=('telecentric' not in feats and 'fno' not in feats))
    ctx.oblige('telecentric_flag', bool(o2.obj_space_telecentric) == ('telecentric' in feats))
    ctx.oblige('field_type', o2.field_type == o.field_type)
    ctx.oblige('aperture_type', o2.aperture.ap_type == o.aperture.ap_type)
    ctx.oblige('polarization_kind', type(o2.polarization) is type(o.polarization))
    ctx.observe('z3', o2.surface_group.positions[3])


@harness('C19', 'H2_trace_equal', funcs=FUNCS,
         cases=lambda tier: [dict(feats=f) for f in (('flat1', 'plane'), ('flat1', 'plane', 'finite', 'aperture', 'coating'),
                                                     ('flat1', 'mirror'))]
         + ([dict(feats=('basic',))] if tier == 'thorough' else []),
         bounds='lenses of plane surfaces (refracting, mirror, with aperture and coating; thorough: conics) with '
                'pinned prescription numbers; one arbitrary ray (symbolic field, pupil point, wavelength) traced through the original '
                'and through the reloaded lens',
         doc='the reloaded lens traces every ray identically: positions, directions, optical path, intensity on every surface')
def h2_trace_equal(ctx, feats):
    from optiland.optic import Optic
    o = build(ctx, feats, pin=True)      # lens numbers pinned (their round trip is H1's subject); the ray is symbolic
    o2 = Optic.from_dict(o.to_dict())
    px, py = ctx.real('Px', lo=-1.0, hi=1.0), ctx.real('Py', lo=-1.0, hi=1.0)
    hy = ctx.real('Hy', lo=-1.0, hi=1.0)
    w = ctx.real('w', lo=0.4, hi=0.7)
    r1 = o.trace_generic(0.0, hy, ctx.arr(px), ctx.arr(py), w)
    r2 = o2.trace_generic(0.0, hy, ctx.arr(px), ctx.arr(py), w)
    for q in ('x', 'y', 'z', 'L', 'M', 'N', 'intensity', 'opd'):
        a1, a2 = getattr(o.surface_group, q), getattr(o2.surface_group, q)
        ctx.oblige(f'{q}_shape', a1.shape == a2.shape)
        for k in range(min(a1.shape[0], a2.shape[0])):
            v1, v2 = ctx.val(a1[k]), ctx.val(a2[k])
            if ctx.finite(v1) and ctx.finite(v2):
                ctx.oblige(f'{q}{k}', ctx.eq(v1, v2))
            else:
                ctx.oblige(f'{q}{k}', (not ctx.finite(v1)) and (not ctx.finite(v2)))
    if ctx.finite(ctx.val(r1.y)):
        ctx.observe('y', r1.y)


def cases_edits(tier):
    return [dict(edit=e) for e in ('set_thickness', 'set_radius', 'set_index', 'scale_system', 'image_solve', 'update_solve',
                                   'set_conic', 'variable_update')]


@harness('C19', 'H3_after_edits', funcs=FUNCS, cases=cases_edits,
         bounds='the basic K=2 lens after one edit operation with a symbolic argument',
         doc='a lens remains serialisable after edits: the dictionary form still consists of JSON types and round-trips')
def h3_after_edits(ctx, edit):
    o = build(ctx, ('basic',) if edit != 'update_solve' else ('solve',))
    if edit == 'set_thickness':
        o.set_thickness(ctx.real('v', lo=0.1, hi=30.0), 1)
    elif edit == 'set_radius':
        o.set_radius(ctx.real('v', ne=0), 2)
    elif edit == 'set_index':
        o.set_index(ctx.real('v', lo=1.0, hi=4.0), 1)
    elif edit == 'set_conic':
        o.set_conic(ctx.real('v'), 1)
    elif edit == 'scale_system':
        o.scale_system(ctx.real('v', lo=0.01, hi=100.0))
    elif edit == 'image_solve':
        o.image_solve()
    elif edit == 'update_solve':
        o.set_radius(ctx.real('v', ne=0), 1)
        o.update()
    elif edit == 'variable_update':
        from optiland.optimization.variable import Variable
        Variable(o, 'thickness', surface_number=1).update(ctx.real('v'))
    s = snapshot(ctx, o)
    if not all(ctx.finite(v) for k, v in s.items() if k.startswith('z') and k != 'z0'):
        ctx.note('non-finite vertex after the edit (degenerate solve): no obligation')
        return
    roundtrip(ctx, o, tag='edit')
    ctx.observe('z3', o.surface_group.positions[3])
