"""C06 - analytically stigmatic systems are imaged perfectly (DESIGN §6 C06).

Each closed-form configuration is run through the REAL surface code (StandardGeometry.distance / surface_normal, RealRays.reflect /
refract, Plane.distance, the OPD accumulation of Surface._trace_real) on a ray that is symbolic in the hit point, the lens numbers and
the start distance.  The hit point is parametrised rationally (slope s of the chord from the vertex: z = 2R / (1 + k + s^2),
rho = s z) and the ray direction by the closed-form focal distance, so that the incoming ray is exactly unit length over the reals.
Obligations: the ray is not lost (finite), it meets the image point on the image plane, and its optical path - referred to the
incoming wavefront - equals the axial one."""
import math

import numpy as np

from symopt.harness import harness
from checks.common import ideal

FUNCS = ['optiland.geometries.standard.StandardGeometry.distance', 'optiland.geometries.standard.StandardGeometry.surface_normal',
         'optiland.geometries.plane.Plane.distance', 'optiland.rays.real_rays.RealRays.reflect', 'optiland.rays.real_rays.RealRays.refract',
         'optiland.rays.real_rays.RealRays.propagate', 'optiland.surfaces.standard_surface.Surface._trace_real',
         'optiland.surfaces.standard_surface.Surface._interact', 'optiland.coordinate_system.CoordinateSystem.localize']

CPHI, SPHI = 0.6, 0.8        # azimuth of the ray's plane of incidence (a Pythagorean pair: exactly unit over the reals)


def two_surfaces(ctx, R, k, n1, n2, mirror, z_img, late_conic=False):
    from optiland.coordinate_system import CoordinateSystem
    from optiland.geometries import StandardGeometry, Plane
    from optiland.surfaces.standard_surface import Surface
    if late_conic:
        g = StandardGeometry(CoordinateSystem(), R, 0.0)      # built as a sphere, conic assigned afterwards (Optic.set_conic does this)
        g.k = k
    else:
        g = StandardGeometry(CoordinateSystem(), R, k)
    m1, m2 = ideal(n1), ideal(n1 if mirror else n2)
    s = Surface(g, m1, m2, is_reflective=mirror)
    img = Surface(Plane(CoordinateSystem(z=z_img)), m2, m2)
    return s, img


def launch(ctx, p0, d):
    from optiland.rays import RealRays
    rays = RealRays(0.0, 0.0, 0.0, 0.0, 0.0, 1.0, 1.0, 0.55)
    rays.x, rays.y, rays.z = ctx.arr(p0[0]), ctx.arr(p0[1]), ctx.arr(p0[2])
    rays.L, rays.M, rays.N = ctx.arr(d[0]), ctx.arr(d[1]), ctx.arr(d[2])
    rays.opd, rays.i, rays.w = ctx.arr(0.0), ctx.arr(1.0), ctx.arr(0.55)
    return rays


def conclude(ctx, rays, img, z_img, opd_want, hit=None, s=None):
    x, y, z, opd = (ctx.val(v) for v in (rays.x, rays.y, rays.z, rays.opd))
    ok = all(ctx.finite(v) for v in (x, y, z, opd))
    ctx.oblige('ray_is_not_lost', ok)
    if not ok:
        return
    if hit is not None and s is not None:
        ctx.oblige('hits_the_surface_point_aimed_at', ctx.And(ctx.eq(ctx.val(s.x), hit[0]), ctx.eq(ctx.val(s.y), hit[1]), ctx.eq(ctx.val(s.z), hit[2])))
    ctx.oblige('meets_image_point', ctx.And(ctx.eq(x, 0.0), ctx.eq(y, 0.0), ctx.eq(z, z_img)))
    ctx.oblige('equal_optical_path', ctx.eq(opd, opd_want))
    ctx.observe('opd', opd)


# ---------------------------------------------------------------------------------------------------- paraboloid mirror
@harness('C06', 'H1_paraboloid', funcs=FUNCS, cases=lambda tier: [dict(late=False), dict(late=True)],
         bounds='concave paraboloid mirror (R < 0 symbolic, k = -1), axis-parallel ray at ANY height (x0, y0) starting on a plane left of the hit '
                'point; late=True: geometry built as a sphere, conic assigned afterwards',
         doc='collimated light on a paraboloid mirror: every ray passes through the focus (0, 0, R/2) and the optical path from the start plane '
             'is -R/2 - z0 for every ray')
def h1_paraboloid(ctx, late):
    R = ctx.real('R', lo=-1000.0, hi=-0.01)
    x0, y0 = ctx.real('x0'), ctx.real('y0')
    z_hit = (x0 * x0 + y0 * y0) / (2 * R)
    z0 = z_hit - ctx.real('tau', lo=0.001, hi=1000.0)
    ctx.assume(ctx.Not(ctx.eq(x0 * x0 + y0 * y0, R * R)))      # (at r = |R| the reflected ray lies IN the image plane: no intersection point)
    s, img = two_surfaces(ctx, R, -1.0, 1.0, 1.0, True, R / 2, late_conic=late)
    rays = launch(ctx, (x0, y0, z0), (0.0, 0.0, 1.0))
    s._trace_real(rays)
    img._trace_real(rays)
    conclude(ctx, rays, img, R / 2, -R / 2 - z0, hit=(x0, y0, z_hit), s=s)


# ---------------------------------------------------------------------------------------------------- ellipsoid / hyperboloid mirrors
def conic_point(ctx, R, k, slope):
    z = 2 * R / (1 + k + slope * slope)
    rho = slope * z
    return rho, z


def cases_conic_mirror(tier):
    return [dict(kind='ellipse_far_to_near'), dict(kind='ellipse_near_to_far'), dict(kind='hyperbola_virtual_to_real'), dict(kind='hyperbola_deep')]


@harness('C06', 'H2_conic_mirror', funcs=FUNCS, cases=cases_conic_mirror,
         bounds='concave conic mirror; ellipse: R < 0 and eccentricity e in [0.05, 0.95] symbolic (k = -e^2); hyperbola: k = -4, R = -1, start 1 before the surface (sign decisions with e symbolic are beyond the solver), sag below the separation of the two sheets (deeper: known finding F24); hit point '
                'anywhere on the sag sheet through the vertex (ellipsoid: up to its equator; chord slope s symbolic), azimuth atan2(4, 3); ellipse: point source at one focus; hyperbola: '
                'beam converging to the focus behind the mirror, started tau before the surface',
         doc='rays from one geometric focus of an ellipsoid mirror meet at the other one, a beam converging to the far focus of a hyperboloid mirror '
             'meets at the near one; the optical path (referred to the spherical incoming wavefront) is the same for every ray')
def h2_conic_mirror(ctx, kind):
    if kind.startswith('hyperbola'):
        R = ctx.const(-1.0)            # lengths in units of |R|
    else:
        R = ctx.real('R', lo=-1000.0, hi=-0.01)
    if kind.startswith('ellipse'):
        e = ctx.real('e', lo=0.05, hi=0.95)
    elif kind.startswith('hyperbola'):
        e = ctx.const(2.0)             # (k = -4; the sign decisions of this configuration are beyond the solver's reach with e symbolic)
    else:
        e = ctx.real('e', lo=1.05, hi=4.0)
    k = -(e * e)
    sl = ctx.real('s')
    if kind.startswith('hyperbola'):
        ctx.assume(sl * sl > e * e - 1)          # the sheet through the vertex (chords steeper than the asymptotes)
    else:
        ctx.assume(sl * sl > 1 - e * e)          # the sag sheet z(rho) ends at the equator of the ellipsoid (the library's surface is that sheet)
    rho, z = conic_point(ctx, R, k, sl)
    P = (CPHI * rho, SPHI * rho, z)
    f_near, f_far = R / (1 + e), R / (1 - e)
    if kind == 'hyperbola_virtual_to_real':
        # the library documents that of two intersections it takes the one closest to the vertex plane: hit points whose sag is smaller
        # than the separation 2R/(1-e^2) of the two sheets are then always the first intersection
        ctx.assume(z * (1 - e * e) < 2 * R)
    elif kind == 'hyperbola_deep':
        # known finding F24: hit points deeper than the far focus - the ray meets the other sheet closer to the vertex plane
        ctx.assume(-z > f_far)
    r_near = -(e * z + R / (1 + e))                                 # focal distances of a point of the sheet (closed form)
    r_far = (e * z - R / (1 - e)) if kind.startswith('ellipse') else (R / (1 - e) - e * z)
    if kind == 'ellipse_far_to_near':
        src, dst, r_src, r_dst = f_far, f_near, r_far, r_near
    elif kind == 'ellipse_near_to_far':
        src, dst, r_src, r_dst = f_near, f_far, r_near, r_far
    else:
        src, dst, r_src, r_dst = f_far, f_near, r_far, r_near
    ctx.assume(ctx.Not(ctx.eq(z, dst)))       # (a hit point level with the image point sends the reflected ray along the image plane)
    s, img = two_surfaces(ctx, R, k, 1.0, 1.0, True, dst)
    if kind.startswith('ellipse'):
        ctx.assume(r_src > 0)
        d = tuple((p - q) / r_src for p, q in zip(P, (0.0, 0.0, src)))
        rays = launch(ctx, (0.0, 0.0, src), d)
        want = r_src + r_dst
        want_axial = -2 * R / (1 - e * e)
        ctx.oblige('oracle_sum_of_focal_distances', ctx.eq(want, want_axial))
    else:
        tau = ctx.const(1.0)
        d = tuple((q - p) / r_src for p, q in zip(P, (0.0, 0.0, src)))
        rays = launch(ctx, tuple(p - tau * c for p, c in zip(P, d)), d)
        # path from the incoming spherical wavefront of radius rho0 about the far focus: rho0 - (tau + r_far) + opd = const
        want = tau + r_dst
    s._trace_real(rays)
    img._trace_real(rays)
    conclude(ctx, rays, img, dst, want, hit=P, s=s)
    ctx.observe('e', e)


@harness('C06', 'H2b_convex_hyperboloid', funcs=FUNCS, cases=lambda tier: [dict()],
         bounds='convex hyperboloid mirror k = -4, R = +1 (lengths in units of R), real point source at the front geometric focus z = R/(1-e) = -1, '
                'hit point on the sheet through the vertex with sag below the separation of the two sheets (chord slope symbolic), azimuth atan2(4, 3)',
         doc='rays from the front focus of a convex hyperboloid mirror are reflected as if they came from the focus behind the mirror: the '
             'reflected ray, extended backwards, passes through z = R/(1+e); the ray hits the sheet through the vertex (not the far sheet); '
             'optical path to the mirror = focal distance')
def h2b_convex_hyperboloid(ctx):
    R, e = ctx.const(1.0), ctx.const(2.0)
    k = -(e * e)
    sl = ctx.real('s')
    ctx.assume(sl * sl > e * e - 1)
    rho, z = conic_point(ctx, R, k, sl)
    P = (CPHI * rho, SPHI * rho, z)
    f_back, f_front = R / (1 + e), R / (1 - e)
    r_front = e * z - R / (1 - e)
    r_back = e * z + R / (1 + e)
    # the source lies inside the OTHER sheet of the quadric, which every ray crosses first (at |z| >= 2R/(e^2-1)); the library takes the
    # intersection nearest to the vertex plane, i.e. the mirror sheet as long as the sag stays below the separation of the sheets
    # (deeper hit points: known finding F24)
    ctx.assume(z * (e * e - 1) < 2 * R)
    s, img = two_surfaces(ctx, R, k, 1.0, 1.0, True, 0.0)
    d = tuple((p - q) / r_front for p, q in zip(P, (0.0, 0.0, f_front)))
    rays = launch(ctx, (0.0, 0.0, f_front), d)
    s._trace_real(rays)
    vals = [ctx.val(v) for v in (rays.x, rays.y, rays.z, rays.L, rays.M, rays.N, rays.opd)]
    ok = all(ctx.finite(v) for v in vals)
    ctx.oblige('ray_is_not_lost', ok)
    if not ok:
        return
    x, y, zz, L, M, N, opd = vals
    ctx.oblige('hits_the_surface_point_aimed_at', ctx.And(ctx.eq(x, P[0]), ctx.eq(y, P[1]), ctx.eq(zz, P[2])))
    v = (P[0], P[1], P[2] - f_back)             # from the focus behind the mirror to the hit point
    cr = (v[1] * N - v[2] * M, v[2] * L - v[0] * N, v[0] * M - v[1] * L)
    ctx.oblige('reflected_ray_comes_from_the_back_focus', ctx.And(ctx.eq(cr[0], 0.0), ctx.eq(cr[1], 0.0), ctx.eq(cr[2], 0.0),
                                                                  v[0] * L + v[1] * M + v[2] * N > 0))
    ctx.oblige('optical_path_is_focal_distance', ctx.eq(opd, r_front))
    ctx.oblige('oracle_difference_of_focal_distances', ctx.eq(r_front - r_back, 2 * R / (e * e - 1)))
    ctx.observe('opd', opd)


# ---------------------------------------------------------------------------------------------------- plano-hyperbolic singlet
@harness('C06', 'H3_plano_hyperbolic', funcs=FUNCS, cases=lambda tier: [dict(late=False), dict(late=True)],
         bounds='exit face of a plano-hyperbolic singlet: R < 0, index n in [1.3, 4] symbolic, k = -n^2, glass -> air, axis-parallel ray inside '
                'the glass hitting the sheet through the vertex anywhere (chord slope symbolic), azimuth atan2(4, 3), started tau before the surface',
         doc='collimated light inside the glass is focused without aberration at z = R / (1 - n): every ray meets the focus, and '
             'n (z_hit - z0) + distance to the focus is the same for every ray')
def h3_plano_hyperbolic(ctx, late):
    R = ctx.real('R', lo=-1000.0, hi=-0.01)
    n = ctx.real('n', lo=1.3, hi=4.0)
    k = -(n * n)
    sl = ctx.real('s')
    ctx.assume(sl * sl > n * n - 1)
    rho, z = conic_point(ctx, R, k, sl)
    P = (CPHI * rho, SPHI * rho, z)
    tau = ctx.real('tau', lo=0.001, hi=1000.0)
    f = R / (1 - n)
    s, img = two_surfaces(ctx, R, k, n, 1.0, False, f, late_conic=late)
    rays = launch(ctx, (P[0], P[1], z - tau), (0.0, 0.0, 1.0))
    s._trace_real(rays)
    img._trace_real(rays)
    # distance of a point of the hyperboloid to the focus: n x (distance to the directrix) - closed form  f - n z
    conclude(ctx, rays, img, f, n * tau + (f - n * z), hit=P, s=s)
    ctx.observe('n', n)


# ---------------------------------------------------------------------------------------------------- sphere: centre and aplanatic points
@harness('C06', 'H4_sphere_centre', funcs=FUNCS, cases=lambda tier: [dict(side='convex'), dict(side='concave')],
         bounds='refracting sphere, indices n, n\' in [1, 4] symbolic; convex: R > 0, beam converging to the centre of curvature; concave: R < 0, point '
                'source at the centre of curvature, image plane through the centre is behind the surface and not reached (direction only); hit '
                'point anywhere on the near hemisphere',
         doc='a ray through the centre of curvature meets the surface normally, is not deviated and (convex case) meets the centre; optical path '
             'n tau + n\' R')
def h4_sphere_centre(ctx, side):
    n1, n2 = ctx.real('n1', lo=1.0, hi=4.0), ctx.real('n2', lo=1.0, hi=4.0)
    sl = ctx.real('s')
    ctx.assume(sl * sl > 1)             # near hemisphere (|z| < |R|)
    if side == 'convex':
        R = ctx.real('R', lo=0.01, hi=1000.0)
    else:
        R = ctx.real('R', lo=-1000.0, hi=-0.01)
    rho, z = conic_point(ctx, R, 0.0, sl)
    P = (CPHI * rho, SPHI * rho, z)
    C = (0.0, 0.0, R)
    if side == 'convex':
        tau = ctx.real('tau', lo=0.001, hi=1000.0)
        d = tuple((c - p) / R for p, c in zip(P, C))
        s, img = two_surfaces(ctx, R, 0.0, n1, n2, False, R)
        rays = launch(ctx, tuple(p - tau * c for p, c in zip(P, d)), d)
        s._trace_real(rays)
        img._trace_real(rays)
        conclude(ctx, rays, img, R, n1 * tau + n2 * R, hit=P, s=s)
    else:
        d = tuple((p - c) / (-R) for p, c in zip(P, C))
        s, img = two_surfaces(ctx, R, 0.0, n1, n2, False, 1.0)
        rays = launch(ctx, C, d)
        s._trace_real(rays)
        ok = all(ctx.finite(ctx.val(v)) for v in (rays.L, rays.M, rays.N, rays.opd))
        ctx.oblige('ray_is_not_lost', ok)
        if ok:
            ctx.oblige('not_deviated', ctx.And(*[ctx.eq(ctx.val(a), b) for a, b in zip((rays.L, rays.M, rays.N), d)]))
            ctx.oblige('equal_optical_path', ctx.eq(ctx.val(rays.opd), -n1 * R))
    ctx.observe('R', R)


@harness('C06', 'H5_aplanatic', funcs=FUNCS, cases=lambda tier: [dict()], tiers=('thorough',),
         bounds='refracting sphere R > 0, indices n, n\' symbolic; beam converging to the aplanatic point z = R (1 + n\'/n) behind the surface; '
                'direction of the ray symbolic (rational parametrisation of the unit vector)',
         doc='a beam converging to the first aplanatic point is refracted to the second one, z = R (1 + n/n\'), with equal optical paths')
def h5_aplanatic(ctx):
    n1, n2 = ctx.real('n1', lo=1.0, hi=4.0), ctx.real('n2', lo=1.0, hi=4.0)
    R = ctx.real('R', lo=0.01, hi=1000.0)
    zo, zi = R * (1 + n2 / n1), R * (1 + n1 / n2)
    u = ctx.real('u', lo=-0.4, hi=0.4)
    den = 1 + u * u
    d = (CPHI * 2 * u / den, SPHI * 2 * u / den, (1 - u * u) / den)
    lam = ctx.real('lam', lo=0.001, hi=5000.0)        # start point: lam before the aplanatic point along the ray
    ctx.assume(lam > zo)
    P0 = tuple(o - lam * c for o, c in zip((0.0, 0.0, zo), d))
    s, img = two_surfaces(ctx, R, 0.0, n1, n2, False, zi)
    rays = launch(ctx, P0, d)
    s._trace_real(rays)
    zh = ctx.val(s.z)
    if not ctx.finite(zh):
        return          # (steep rays miss the sphere: they do not exist)
    ctx.assume(zh < R)  # the sag sheet of the library's surface is the near hemisphere
    img._trace_real(rays)
    x, y, z, opd = (ctx.val(v) for v in (rays.x, rays.y, rays.z, rays.opd))
    if not all(ctx.finite(v) for v in (x, y, z, opd)):
        ctx.oblige('ray_is_not_lost', False)
        return
    ctx.oblige('meets_image_point', ctx.And(ctx.eq(x, 0.0), ctx.eq(y, 0.0), ctx.eq(z, zi)))
    # incoming wavefront: sphere about the object point; path = opd - n1 lam is the same for all rays (axial value: n2 zi - n1 zo)
    ctx.oblige('equal_optical_path', ctx.eq(opd - n1 * lam, n2 * zi - n1 * zo))
    ctx.observe('opd', opd)


@harness('C06', 'H9_strehl_of_a_perfect_wavefront', funcs=['optiland.psf.FFTPSF._generate_pupils', 'optiland.psf.FFTPSF._pad_pupils',
                                                           'optiland.psf.FFTPSF._compute_psf', 'optiland.psf.FFTPSF._get_normalization',
                                                           'optiland.psf.FFTPSF.strehl_ratio'],
         cases=lambda tier: [dict(n=4), dict(n=3), dict(n=4, free=1), dict(n=3, free=1)],
         bounds='(free=1: only the first ray intensity symbolic, the others 1 - a one-parameter family in which counterexamples are easy to find) pupil sampling = grid = 4 or 3 (4 resp. 5 rays inside the unit pupil), one wavelength; the wavefront error of every ray is exactly 0 '
                '(what the other harnesses establish for the stigmatic systems), the ray intensities are arbitrary positive reals (absorbing glass, '
                'coatings: not uniform over the pupil)',
         doc='a wavefront without error has Strehl ratio exactly one and its PSF peaks at 100 in the centre, whatever the transmitted intensities '
             'of the rays')
def h9_strehl(ctx, n, free=None):
    from checks.C11 import make_psf
    m = 4 if n == 4 else 5
    I = [ctx.real(f'I{i}', lo=0.001, hi=1.0) if free is None or i < free else 1.0 for i in range(m)]
    p = make_psf(ctx, [0.0] * m, I, n=n)
    st = ctx.val(p.strehl_ratio())
    ctx.oblige('strehl_is_one', ctx.eq(st, 1.0))
    ctx.oblige('peak_is_100', ctx.eq(ctx.val(p.psf[n // 2, n // 2]), 100.0))
    ctx.observe('strehl', st)
