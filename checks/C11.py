"""C11 - PSF, Strehl ratio and MTF are correctly normalised transforms of the pupil (DESIGN §6 C11).

The real FFTPSF / FFTMTF code runs on a 4 x 4 pupil grid (the size for which the discrete Fourier transform has exact twiddle factors
+-1, +-i) with symbolic wavefront errors and intensities; complex numbers are pairs of symbolic reals, exp(i 2 pi W) a (cos, sin) pair."""
import math

import numpy as np

from symopt.harness import harness
from checks.common import ideal

FUNCS = ['optiland.psf.FFTPSF._generate_pupils', 'optiland.psf.FFTPSF._pad_pupils', 'optiland.psf.FFTPSF._compute_psf',
         'optiland.psf.FFTPSF._get_normalization', 'optiland.psf.FFTPSF.strehl_ratio', 'optiland.psf.FFTPSF._get_psf_units',
         'optiland.mtf.FFTMTF.__init__', 'optiland.mtf.FFTMTF._generate_mtf_data', 'optiland.mtf.FFTMTF._get_fno',
         'optiland.mtf.FFTMTF._get_mtf_units', 'optiland.mtf.GeometricMTF.__init__']
N = 4


def parts(ctx, v):
    """(re, im) of a complex / real symbolic value"""
    v = ctx.val(v)
    if type(v).__name__ == 'SC':
        return v.re, v.im
    if isinstance(v, complex):
        return v.real, v.imag
    if hasattr(v, 'real') and not hasattr(v, 'sym'):
        return np.real(v), np.imag(v)
    return v, 0.0


def aux(ctx, name, value):
    """a fresh solver variable constrained to equal value (keeps squares of long polynomials recognisable as squares)"""
    if not ctx.sym:
        return value
    v = ctx.real(name)
    ctx.assume(ctx.eq(v, value))
    return v


def make_psf(ctx, W, I, w=0.55, n=None):
    from optiland.psf import FFTPSF
    p = FFTPSF.__new__(FFTPSF)
    p.wavelengths = [w]
    p.num_rays = n or N
    p.grid_size = n or N
    p.data = [[(ctx.arr(*W), ctx.arr(*I))]]
    p.pupils = p._generate_pupils()
    p.psf = p._compute_psf()
    return p


def twiddles(ctx, n):
    """exp(-2 pi i m / n), m = 0..n-1, exactly"""
    if n == 4:
        return [(1.0, 0.0), (0.0, -1.0), (-1.0, 0.0), (0.0, 1.0)]
    if n == 3:
        if ctx.sym:
            import z3
            from symopt.sv import SV
            h, s3h = SV(t=z3.RealVal('1/2')), SV(t=z3.RealVal(3)).sqrt() * SV(t=z3.RealVal('1/2'))
        else:
            h, s3h = 0.5, math.sqrt(3.0) / 2
        return [(1.0, 0.0), (-h, -s3h), (-h, s3h)]
    raise ValueError(n)


def dft_power(ctx, P, n=None):
    """DFT of the n x n complex grid P[j][k] = (re, im), zero frequency at index n // 2 (fftshift)"""
    n = n or N
    tw = twiddles(ctx, n)
    out = [[None] * n for _ in range(n)]
    for u in range(n):
        for v in range(n):
            fu, fv = (u - n // 2) % n, (v - n // 2) % n
            re, im = 0.0, 0.0
            for j in range(n):
                for k in range(n):
                    a, b = P[j][k]
                    if not ctx.sym and a == 0 and b == 0:
                        continue
                    c, s_ = tw[(fu * j + fv * k) % n]
                    re = re + a * c - b * s_
                    im = im + a * s_ + b * c
            out[u][v] = (re, im)
    return out


def cases_psf(tier):
    return [dict(kind='aberrated'), dict(kind='unaberrated'), dict(kind='unaberrated', n=3)] + ([dict(kind='aberrated', n=3)] if tier == 'thorough' else [])


@harness('C11', 'H1_psf', funcs=FUNCS, cases=cases_psf,
         bounds='pupil sampling = grid = 4 (even: 4 samples inside the unit disk) and 3 (odd: 5 samples; exact DFT with the algebraic number sqrt 3), no padding, one wavelength; wavefront errors '
                '(symbolic reals, any size) and intensities (symbolic positives) injected as the Wavefront data',
         doc='pupil = (intensity / mean intensity) exp(i 2 pi W) inside the unit disk and 0 outside; PSF = 100 |DFT(pupil)|^2 / (unaberrated peak) at '
             'every pixel, >= 0, total energy independent of W, central value / 100 (Strehl) <= 1; unaberrated uniform pupil: peak exactly 100 '
             'at the centre')
def h1_psf(ctx, kind, n=4):
    # pupil samples inside the unit disk, in the order of the 'uniform' distribution (row-major over the meshgrid)
    grid = [-1.0 + 2.0 * i / (n - 1) for i in range(n)]
    inside = [(j, k) for j in range(n) for k in range(n) if grid[j] ** 2 + grid[k] ** 2 <= 1.0]
    m = len(inside)
    if kind == 'aberrated':
        W = [ctx.real(f'W{i}', lo=-30.0, hi=30.0) for i in range(m)]
        I = [ctx.real(f'I{i}', lo=0.01, hi=10.0) for i in range(m)]
    else:
        W = [0.0] * m
        i0 = ctx.real('I0', lo=0.01, hi=10.0)
        I = [i0] * m
    p = make_psf(ctx, W, I, n=n)
    pup = p.pupils[0]
    mean_i = sum(I[1:], I[0]) / m
    P = [[parts(ctx, pup[j, k]) for k in range(n)] for j in range(n)]
    for j in range(n):
        for k in range(n):
            if (j, k) not in inside:
                ctx.oblige(f'pupil_zero_outside_{j}{k}', ctx.And(ctx.eq(P[j][k][0], 0.0), ctx.eq(P[j][k][1], 0.0)))
    amp = []
    for idx, (j, k) in enumerate(inside):
        a = I[idx] / mean_i
        amp.append(a)
        re, im = P[j][k]
        if kind == 'aberrated':
            th = (2 * math.pi) * W[idx]
            ctx.oblige(f'pupil_value_{j}{k}', ctx.And(ctx.eq(re, a * ctx.cos(th)), ctx.eq(im, a * ctx.sin(th))))
        else:
            ctx.oblige(f'pupil_value_{j}{k}', ctx.And(ctx.eq(re, 1.0), ctx.eq(im, 0.0)))
        ctx.oblige(f'pupil_modulus_{j}{k}', ctx.eq(re * re + im * im, a * a))
    F = dft_power(ctx, P, n)
    psf = [[ctx.val(p.psf[u, v]) for v in range(n)] for u in range(n)]
    norm = float(m * m)         # peak of the unaberrated pupil: |1 + ... + 1|^2
    tot = 0.0
    for u in range(n):
        for v in range(n):
            re, im = F[u][v]
            ctx.oblige(f'psf_{u}{v}_is_squared_modulus_of_dft', ctx.eq(psf[u][v] * norm, 100 * (re * re + im * im)))
            if kind == 'aberrated':
                r_, i_ = aux(ctx, f're{u}{v}', re), aux(ctx, f'im{u}{v}', im)
                ctx.oblige(f'psf_{u}{v}_nonneg', ctx.Implies(ctx.eq(psf[u][v] * norm, 100 * (r_ * r_ + i_ * i_)), ctx.le(0.0, psf[u][v])))
            else:
                ctx.oblige(f'psf_{u}{v}_nonneg', ctx.le(0.0, psf[u][v]))
            tot = tot + psf[u][v]
    # Parseval: sum |DFT|^2 = n^2 sum |P|^2
    ctx.oblige('total_energy_independent_of_aberration', ctx.eq(tot * norm, 100 * (n * n) * sum((a * a for a in amp[1:]), amp[0] * amp[0])))
    strehl = ctx.val(p.strehl_ratio())
    c0 = n // 2
    ctx.oblige('strehl_is_central_value', ctx.eq(strehl * 100, psf[c0][c0]))
    if kind == 'unaberrated':
        ctx.oblige('unaberrated_peak_is_100', ctx.eq(psf[c0][c0], 100.0))
        ctx.oblige('unaberrated_peak_is_the_maximum', ctx.And(*[ctx.le(psf[u][v], 100.0) for u in range(n) for v in range(n)]))
        ctx.oblige('strehl_is_one', ctx.eq(strehl, 1.0))
    else:
        # |sum P_k|^2 <= (sum a_k)^2 = m^2: pairwise Cauchy-Schwarz lemmas (each decided by the solver), then a linear combination
        xs = [aux(ctx, f'x{i}', P[j][k][0]) for i, (j, k) in enumerate(inside)]
        ys = [aux(ctx, f'y{i}', P[j][k][1]) for i, (j, k) in enumerate(inside)]
        as_ = [aux(ctx, f'a{i}', a) for i, a in enumerate(amp)]
        mod = [ctx.eq(xs[i] * xs[i] + ys[i] * ys[i], as_[i] * as_[i]) for i in range(m)]
        pos = [as_[i] >= 0 for i in range(m)]
        lem = []
        for i in range(m):
            for j in range(i + 1, m):
                c = ctx.le(xs[i] * xs[j] + ys[i] * ys[j], as_[i] * as_[j])
                ctx.oblige(f'cauchy_schwarz_{i}{j}', ctx.Implies(ctx.And(mod[i], mod[j], pos[i], pos[j]), c))
                lem.append(c)
        sx, sy, sa = sum(xs[1:], xs[0]), sum(ys[1:], ys[0]), sum(as_[1:], as_[0])
        ctx.oblige('amplitudes_sum_to_the_number_of_samples', ctx.eq(sa, float(m)))
        ctx.oblige('peak_amplitude_bounded', ctx.Implies(ctx.And(*mod, *lem), ctx.le(sx * sx + sy * sy, sa * sa)))
        # (the three facts are chained below over fresh variables: each link is a solver query of its own)
        st = aux(ctx, 'st', strehl)
        pk = aux(ctx, 'pk', sx * sx + sy * sy)
        pc = aux(ctx, 'pc', psf[c0][c0])
        rc, ic = aux(ctx, 'rc', F[c0][c0][0]), aux(ctx, 'ic', F[c0][c0][1])
        ctx.oblige('central_dft_sample_is_the_sum_of_the_pupil', ctx.And(ctx.eq(rc, sx), ctx.eq(ic, sy)))
        ctx.oblige('central_pixel_over_fresh_variables', ctx.eq(pc * norm, 100 * (rc * rc + ic * ic)))
        ctx.oblige('strehl_is_peak_amplitude', ctx.Implies(ctx.And(ctx.eq(pc * norm, 100 * (rc * rc + ic * ic)), ctx.eq(st * 100, pc),
                                                                   ctx.eq(rc, sx), ctx.eq(ic, sy), ctx.eq(pk, sx * sx + sy * sy)), ctx.eq(st * norm, pk)))
        ctx.oblige('strehl_at_most_one', ctx.Implies(ctx.And(ctx.le(pk, sa * sa), ctx.eq(sa, float(m)), ctx.eq(st * norm, pk)), ctx.le(st, 1.0)))
    ctx.observe('strehl', strehl)


@harness('C11', 'H2_mtf', funcs=FUNCS, cases=lambda tier: [dict()],
         stubs=['optiland.mtf.FFTPSF -> object carrying an arbitrary non-negative 4 x 4 PSF (H1 decides the PSF)'],
         bounds='grid 4: each MTF slice has 2 samples (zero frequency and the first bin); PSF = 4 symbolic non-negative numbers in the central 2 x 2 block, 0 elsewhere; real plane-surface lens for the F-number',
         doc='MTF = |DFT(PSF)| along the tangential / sagittal axis from the zero frequency, normalised to its maximum: it starts at one and stays '
             'within [0, 1]')
def h2_mtf(ctx):
    from optiland import mtf as mm
    from optiland.optic import Optic
    o = Optic()
    o.add_surface(index=0, thickness=np.inf)
    o.add_surface(index=1, thickness=ctx.real('t1', lo=0.1, hi=20.0), material=ideal(ctx.real('n1', lo=1.0, hi=2.0)), is_stop=True, radius=ctx.real('R1', lo=5.0, hi=500.0))
    o.add_surface(index=2, thickness=ctx.real('t2', lo=0.1, hi=50.0))
    o.add_surface(index=3)
    o.set_aperture('EPD', ctx.real('epd', lo=0.1, hi=10.0))
    o.set_field_type('angle')
    o.add_field(y=0.0)
    o.add_wavelength(0.55, is_primary=True)
    q = [[(ctx.real(f'p{j}{k}', lo=0.0, hi=100.0) if (j in (1, 2) and k in (1, 2)) else ctx.const(0.0)) for k in range(N)] for j in range(N)]
    ctx.assume(q[1][1] + q[1][2] + q[2][1] + q[2][2] > 0)
    made = []

    class FakePSF:
        def __init__(self, optic, field, wavelength, num_rays, grid_size):
            made.append((field, wavelength, num_rays, grid_size))
            self.psf = ctx.arr(*[q[j][k] for j in range(N) for k in range(N)]).reshape(N, N)
    orig = mm.FFTPSF
    mm.FFTPSF = FakePSF
    try:
        m = mm.FFTMTF(o, fields=[(0.0, 0.0)], wavelength=0.55, num_rays=N, grid_size=N)
    finally:
        mm.FFTPSF = orig
    ctx.oblige('one_psf_per_field_with_the_requested_sampling', len(made) == 1 and made[0][2:] == (N, N))
    P = [[(q[j][k], 0.0) for k in range(N)] for j in range(N)]
    F = dft_power(ctx, P)
    tan, sag = m.mtf[0]
    for nm, got, idx in (('tangential', ctx.vals(tan), [(N // 2 + i, N // 2) for i in range(N // 2)]),
                         ('sagittal', ctx.vals(sag), [(N // 2, N // 2 + i) for i in range(N // 2)])):
        ctx.oblige(f'{nm}_samples', len(got) == N // 2)
        dc = F[N // 2][N // 2][0]
        for i, (u, v) in enumerate(idx):
            if not ctx.finite(got[i]):
                ctx.oblige(f'{nm}_{i}_finite', False)
                continue
            re, im = F[u][v]
            ctx.oblige(f'{nm}_{i}_is_normalised_modulus', ctx.And(got[i] >= 0, ctx.eq(got[i] * got[i] * dc * dc, re * re + im * im)))
            ctx.oblige(f'{nm}_{i}_within_0_1', ctx.And(ctx.le(0.0, got[i]), ctx.le(got[i], 1.0)))
        ctx.oblige(f'{nm}_starts_at_one', ctx.eq(got[0], 1.0))
    ctx.observe('p11', q[1][1])


def cases_units(tier):
    return [dict(obj='inf', stop=1), dict(obj='finite', stop=1), dict(obj='finite', stop=2)]


@harness('C11', 'H3_units', funcs=FUNCS, cases=cases_units,
         bounds='real Optic: singlet in air with 2 spherical surfaces (R, t, n symbolic) forming a real inverted image, stop at the first or second surface, object at infinity or at a symbolic finite '
                'distance; sampling / grid numbers 4 / 8 (the formulas do not iterate over them)',
         doc='the working F-number used for the PSF pixel and the MTF axis is 1 / (2 |u\'|) of the paraxial marginal ray in image space (= f/EPD for '
             'an infinite object); PSF pixel = wavelength x F / Q; the MTF frequency step is the reciprocal of grid size x PSF pixel (in mm), and '
             'the cut-off 1 / (wavelength x working F-number) for both MTF classes')
def h3_units(ctx, obj, stop):
    from checks.C04 import Lens
    from optiland import mtf as mm
    from optiland.psf import FFTPSF
    from optiland.analysis import spot_diagram as sdm
    L = Lens(ctx, 2, (), stop, obj, media={2: 'air'}, tpos=True)
    o = L.build(aperture=('EPD', ctx.real('epd', lo=0.1, hi=10.0)), field_type='angle', fields=(0.0,))
    w = ctx.real('w', lo=0.4, hi=0.7)
    ya, ua = o.paraxial.marginal_ray()
    u_img = ctx.val(ua[len(o.surface_group.surfaces) - 2])          # slope arriving at the image surface
    ctx.assume(u_img < 0)            # a real image: the marginal ray converges to the axis
    if obj == 'finite':
        mag = ctx.val(o.paraxial.magnification())
        if not ctx.finite(mag):
            return
        ctx.assume(mag < 0)          # ... and is inverted (the working F-number N (1 + |m| / p) is the textbook form for that case)
    fno_w = 1 / (2 * ctx.abs(u_img))
    m = mm.FFTMTF.__new__(mm.FFTMTF)
    m.optic, m.wavelength, m.num_rays, m.grid_size = o, w, 4, 8
    got = ctx.val(m._get_fno())
    if not ctx.finite(got):
        return
    ctx.oblige('working_f_number', ctx.eq(got, fno_w))
    m.FNO = got
    p = FFTPSF.__new__(FFTPSF)
    p.optic, p.wavelengths, p.num_rays, p.grid_size = o, [w], 4, 8
    x_ext, y_ext = p._get_psf_units(np.zeros((3, 5)))
    pix = w * fno_w / (8 / 4)
    ctx.oblige('psf_extent', ctx.And(ctx.eq(ctx.val(x_ext), 5 * pix), ctx.eq(ctx.val(y_ext), 3 * pix)))
    df = ctx.val(m._get_mtf_units())
    ctx.oblige('mtf_frequency_step_is_reciprocal_of_psf_extent', ctx.eq(df * (8 * pix * 1e-3), 1.0))
    # cut-off frequencies
    orig_sd, orig_gen = sdm.SpotDiagram.__init__, mm.GeometricMTF._generate_mtf_data
    made = []

    class FakePSF:
        def __init__(self, *a):
            made.append(a)
            self.psf = None
    orig_psf, orig_fft_gen = mm.FFTPSF, mm.FFTMTF._generate_mtf_data
    sdm.SpotDiagram.__init__ = lambda self, *a, **k: None
    mm.GeometricMTF._generate_mtf_data = lambda self: (None, None)
    mm.FFTPSF = FakePSF
    mm.FFTMTF._generate_mtf_data = lambda self: None
    try:
        o.add_wavelength(w, is_primary=True)
        g = mm.GeometricMTF(o, fields=[(0.0, 0.0)], wavelength=w, num_rays=3, num_points=3)
        f = mm.FFTMTF(o, fields=[(0.0, 0.0)], wavelength=w, num_rays=4, grid_size=8)
    finally:
        sdm.SpotDiagram.__init__, mm.GeometricMTF._generate_mtf_data = orig_sd, orig_gen
        mm.FFTPSF, mm.FFTMTF._generate_mtf_data = orig_psf, orig_fft_gen
    cut = 1 / (w * 1e-3 * fno_w)
    ctx.oblige('fft_mtf_cutoff', ctx.eq(ctx.val(f.max_freq), cut))
    ctx.oblige('geometric_mtf_cutoff', ctx.eq(ctx.val(g.max_freq), cut))
    fr = ctx.vals(g.freq)
    ctx.oblige('geometric_mtf_frequency_axis', len(fr) == 3 and ctx.And(ctx.eq(fr[0], 0.0), ctx.eq(fr[1] * 2, cut), ctx.eq(fr[2], cut)))
    ctx.observe('w', w)


@harness('C11', 'H4_view_is_read_only', funcs=['optiland.psf.FFTPSF.view', 'optiland.psf.FFTPSF.strehl_ratio', 'optiland.psf.FFTPSF._compute_psf'],
         cases=lambda tier: [dict(projection=p, log=lg) for p in ('2d', '3d') for lg in (False, True)],
         stubs=['FFTPSF._find_bounds -> a fixed valid window (whole array, or rows/columns 1..2 for the 3d cases)', 'FFTPSF._get_psf_units -> (1, 1)',
                'FFTPSF._interpolate_psf (scipy zoom) -> its argument', 'FFTPSF._plot_2d / _plot_3d (matplotlib) -> empty bodies'],
         bounds='4 x 4 PSF of symbolic wavefront errors and intensities; one or two view() calls; display window fixed by the stub',
         doc='displaying the PSF does not change it: after view() every pixel of .psf and the Strehl ratio are what they were before, whatever '
             'the pixel values (the PSF stays the normalised squared DFT of the pupil for later readers and for FFTMTF)')
def h4_view(ctx, projection, log):
    from optiland.psf import FFTPSF
    n = 4
    W = [ctx.real(f'W{i}', lo=-30.0, hi=30.0) for i in range(4)]
    I = [ctx.real(f'I{i}', lo=0.01, hi=10.0) for i in range(4)]
    p = make_psf(ctx, W, I, n=n)
    before = [[ctx.val(p.psf[u, v]) for v in range(n)] for u in range(n)]
    s_before = ctx.val(p.strehl_ratio())
    win = (0, 0, n, n) if projection == '2d' else (1, 1, 3, 3)
    shown = []
    p._find_bounds = lambda threshold=0.05: win
    p._get_psf_units = lambda image: (1.0, 1.0)
    p._interpolate_psf = lambda image, num_points=128: image
    p._plot_2d = lambda image, log_, xe, ye, figsize=None: shown.append(image)
    p._plot_3d = lambda image, log_, xe, ye, figsize=None: shown.append(image)
    p.view(projection=projection, log=log)
    if log:
        p.view(projection=projection, log=log)       # (a second look must not compound anything either)
    ctx.oblige('something_was_shown', len(shown) == (2 if log else 1))
    for u in range(n):
        for v in range(n):
            ctx.oblige(f'pixel_{u}{v}_unchanged_by_view', ctx.eq(ctx.val(p.psf[u, v]), before[u][v]))
    ctx.oblige('strehl_unchanged_by_view', ctx.eq(ctx.val(p.strehl_ratio()), s_before))
    ctx.observe('strehl', s_before)
