"""C16 - ray intensity is never created and is removed exactly as specified (DESIGN §6 C16)."""
import math

import numpy as np

from symopt.harness import harness
from checks.common import ideal
from checks.C02 import unit, mkrays, FakeGeometry

FUNCS = ['optiland.physical_apertures.RadialAperture.clip', 'optiland.rays.real_rays.RealRays.clip',
         'optiland.rays.real_rays.RealRays.propagate', 'optiland.coatings.SimpleCoating.transmit',
         'optiland.coatings.SimpleCoating.reflect', 'optiland.coatings.BaseCoating.interact',
         'optiland.surfaces.standard_surface.Surface._trace_real', 'optiland.surfaces.standard_surface.Surface._interact',
         'optiland.optic.Optic.trace', 'optiland.optic.Optic.trace_generic', 'optiland.materials.ideal.IdealMaterial.k',
         'optiland.analysis.ray_fan.RayFan._generate_data']


def absorbing(n, k):
    from optiland.materials import IdealMaterial
    return IdealMaterial(n=n, k=k)


@harness('C16', 'H1_clip', funcs=FUNCS, cases=lambda tier: [dict(obsc=False), dict(obsc=True), dict(obsc=True, history='scale'), dict(obsc=True, history='assign'), dict(obsc=True, history='roundtrip')],
         bounds='one ray at an arbitrary point, arbitrary r_max (and r_min with central obscuration), arbitrary intensity in [0,1]; history: the aperture '
                'is rescaled by a symbolic factor / its radii are re-assigned / it goes through to_dict-from_dict before it clips',
         doc='RadialAperture.clip: outside r_min <= r <= r_max (the CURRENT radii of the aperture) the intensity becomes 0, inside it is unchanged')
def h1_clip(ctx, obsc, history=None):
    from optiland.physical_apertures import RadialAperture
    x, y = ctx.real('x'), ctx.real('y')
    i0 = ctx.real('i0', lo=0.0, hi=1.0)
    rmax = ctx.real('rmax', lo=0.0)
    rmin = ctx.real('rmin', lo=0.0) if obsc else 0.0
    ap = RadialAperture(r_max=rmax, r_min=rmin)
    if history == 'scale':
        f = ctx.real('f', lo=0.01, hi=100.0)
        ap.scale(f)
        rmax, rmin = rmax * f, rmin * f
    elif history == 'assign':
        rmax, rmin = ctx.real('rmax2', lo=0.0), ctx.real('rmin2', lo=0.0)
        ap.r_max, ap.r_min = rmax, rmin
    elif history == 'roundtrip':
        ap = RadialAperture.from_dict(ap.to_dict())
    ctx.oblige('radii_read_back', ctx.And(ctx.eq(ap.r_max, rmax), ctx.eq(ap.r_min, rmin)))
    rays = mkrays(ctx, x, y, 0.0, 0.0, 0.0, 1.0, i=i0)
    ap.clip(rays)
    i1 = ctx.val(rays.i)
    r2 = x * x + y * y
    outside = ctx.Or(r2 > rmax * rmax, r2 < rmin * rmin)
    ctx.oblige('outside_is_zero', ctx.Implies(outside, ctx.eq(i1, 0.0)))
    ctx.oblige('inside_unchanged', ctx.Implies(ctx.Not(outside), ctx.eq(i1, i0)))
    ctx.observe('i', i1)


@harness('C16', 'H2_absorb', funcs=FUNCS, cases=lambda tier: [dict()],
         bounds='one ray, arbitrary direction, distance t >= 0, extinction k >= 0, wavelength in [0.2, 12] um',
         doc='RealRays.propagate: intensity multiplied by exp(-4 pi k t 1e3 / lambda) (t in mm, lambda in um); never increases; '
             'position advanced by t along the direction')
def h2_absorb(ctx):
    p = (ctx.real('px'), ctx.real('py'), ctx.real('pz'))
    d = unit(ctx, 'd', 1)
    t = ctx.real('t', lo=0.0)
    k = ctx.real('k', lo=0.0)
    w = ctx.real('w', lo=0.2, hi=12.0)
    i0 = ctx.real('i0', lo=0.0, hi=1.0)
    rays = mkrays(ctx, *p, *d, i=i0, w=w)
    rays.propagate(ctx.arr(t), absorbing(1.5, k))
    i1 = ctx.val(rays.i)
    want = i0 * ctx.exp(-(4 * math.pi * k / w) * t * 1e3)
    ctx.oblige('beer_lambert', ctx.eq(i1, want))
    ctx.oblige('never_increases', ctx.le(i1, i0))
    ctx.oblige('non_negative', ctx.le(0.0, i1))
    for nm, got, want_ in zip('xyz', (rays.x, rays.y, rays.z), (p[0] + t * d[0], p[1] + t * d[1], p[2] + t * d[2])):
        ctx.oblige(f'position_{nm}', ctx.eq(got, want_))
    ctx.observe('i', i1)
    # no medium given: intensity untouched
    rays2 = mkrays(ctx, *p, *d, i=i0, w=w)
    rays2.propagate(ctx.arr(t))
    ctx.oblige('no_medium_no_change', ctx.eq(rays2.i, i0))


@harness('C16', 'H3_coating', funcs=FUNCS, cases=lambda tier: [dict(refl=False), dict(refl=True)],
         bounds='SimpleCoating with arbitrary 0 <= T, R <= 1',
         doc='SimpleCoating multiplies the intensity by its transmittance (reflectance at a mirror) and touches nothing else')
def h3_coating(ctx, refl):
    from optiland.coatings import SimpleCoating
    T, R = ctx.real('T', lo=0.0, hi=1.0), ctx.real('R', lo=0.0, hi=1.0)
    i0 = ctx.real('i0', lo=0.0, hi=1.0)
    d = unit(ctx, 'd', 1)
    rays = mkrays(ctx, 0.1, 0.2, 0.3, *d, i=i0)
    c = SimpleCoating(T, R)
    out = c.interact(rays, reflect=refl, nx=ctx.arr(0.0), ny=ctx.arr(0.0), nz=ctx.arr(1.0))
    ctx.oblige('factor', ctx.eq(out.i, i0 * (R if refl else T)))
    ctx.oblige('never_increases', ctx.le(out.i, i0))
    for nm, got, want in zip(('L', 'M', 'N'), (out.L, out.M, out.N), d):
        ctx.oblige(f'direction_untouched_{nm}', ctx.eq(got, want))
    ctx.observe('i', out.i)


def cases_step(tier):
    return [dict(refl=False, shift=False, coat=True), dict(refl=True, shift=False, coat=True), dict(refl=False, shift=True, coat=False),
            dict(refl=False, shift=True, coat=True)]


@harness('C16', 'H4_surface_step', cases=cases_step, funcs=FUNCS,
         bounds='one surface with uninterpreted intersection distance t >= 0 and normal; decentred frame (dx,dy,dz) in two cases; radial '
                'aperture with obscuration, absorbing medium in front (k >= 0), SimpleCoating; arbitrary incoming intensity in [0,1]',
         doc='Surface._trace_real changes the intensity only by: Beer-Lambert over the distance travelled in the medium in front, '
             'zero outside the aperture evaluated in the surface frame, coating factor; recorded intensity = ray intensity; 0 <= i\' <= i')
def h4_step(ctx, refl, shift, coat):
    from optiland.coordinate_system import CoordinateSystem
    from optiland.surfaces.standard_surface import Surface
    from optiland.physical_apertures import RadialAperture
    from optiland.coatings import SimpleCoating
    p = (ctx.real('px'), ctx.real('py'), ctx.real('pz'))
    d = unit(ctx, 'd', 1)
    n = unit(ctx, 'n', -1)
    t = ctx.real('t', lo=0.0)
    i0 = ctx.real('i0', lo=0.0, hi=1.0)
    k1 = ctx.real('k1', lo=0.0)
    n1, n2 = ctx.real('n1', lo=1.0, hi=4.0), ctx.real('n2', lo=1.0, hi=4.0)
    rmax, rmin = ctx.real('rmax', lo=0.0), ctx.real('rmin', lo=0.0)
    T, R = ctx.real('T', lo=0.0, hi=1.0), ctx.real('R', lo=0.0, hi=1.0)
    o = (ctx.real('ox'), ctx.real('oy'), ctx.real('oz')) if shift else (0.0, 0.0, 0.0)
    g = FakeGeometry(CoordinateSystem(x=o[0], y=o[1], z=o[2]), ctx.arr(t), (ctx.arr(n[0]), ctx.arr(n[1]), ctx.arr(n[2])))
    s = Surface(g, absorbing(n1, k1), ideal(n2), is_reflective=refl, aperture=RadialAperture(rmax, rmin),
                coating=SimpleCoating(T, R) if coat else None)
    w = 0.55
    rays = mkrays(ctx, *p, *d, i=i0, w=w)
    s.trace(rays)
    i1 = ctx.val(rays.i)
    # oracle
    q = (p[0] - o[0] + t * d[0], p[1] - o[1] + t * d[1])     # landing point in the surface frame
    r2 = q[0] * q[0] + q[1] * q[1]
    outside = ctx.Or(r2 > rmax * rmax, r2 < rmin * rmin)
    att = i0 * ctx.exp(-(4 * math.pi * k1 / w) * t * 1e3)
    fac = (R if refl else T) if coat else 1.0
    ctx.oblige('outside_aperture_zero', ctx.Implies(outside, ctx.eq(i1, 0.0)))
    ctx.oblige('inside_exact', ctx.Implies(ctx.Not(outside), ctx.eq(i1, att * fac)))
    ctx.oblige('never_increases', ctx.le(i1, i0))
    ctx.oblige('non_negative', ctx.le(0.0, i1))
    ctx.oblige('record_is_ray_intensity', ctx.eq(s.intensity, i1))
    ctx.observe('i', i1)


@harness('C16', 'H5_wiring', funcs=FUNCS, cases=lambda tier: [dict(entry='trace_generic'), dict(entry='surface_group')],
         bounds='real Optic of 2 plane surfaces + image plane, apertures on surfaces 1 and 2 (decentred surface 2), absorbing glass between '
                'them, SimpleCoating on surface 1; one arbitrary ray',
         doc='per-surface intensity records and the returned rays carry the oracle intensity; once zero, zero on every later surface')
def h5_wiring(ctx, entry):
    from optiland.optic import Optic
    from optiland.physical_apertures import RadialAperture
    from optiland.coatings import SimpleCoating
    o = Optic()
    t1 = ctx.real('t1', lo=0.1, hi=50.0)
    t2 = ctx.real('t2', lo=0.1, hi=50.0)
    n1 = ctx.real('n1', lo=1.0, hi=4.0)
    kk = ctx.real('k', lo=0.0)
    r1, r2 = ctx.real('r1', lo=0.0), ctx.real('r2', lo=0.0)
    T = ctx.real('T', lo=0.0, hi=1.0)
    dy2 = ctx.real('dy2')
    o.add_surface(index=0, thickness=np.inf)
    o.add_surface(index=1, thickness=t1, material=absorbing(n1, kk), is_stop=True, aperture=RadialAperture(r1),
                  coating=SimpleCoating(T, 1 - T))
    o.add_surface(index=2, thickness=t2, aperture=RadialAperture(r2), dy=dy2)
    o.add_surface(index=3)
    o.set_aperture('EPD', 2.0)
    o.set_field_type('angle')
    o.add_field(y=0.0)
    o.add_wavelength(0.55, is_primary=True)
    if entry == 'trace_generic':
        Px, Py = ctx.real('Px', lo=-1.0, hi=1.0), ctx.real('Py', lo=-1.0, hi=1.0)
        rays = o.trace_generic(0.0, 0.0, ctx.arr(Px), ctx.arr(Py), 0.55)
        x0, y0, L, M, N = Px * 1.0, Py * 1.0, ctx.const(0.0), ctx.const(0.0), ctx.const(1.0)
    else:
        x0, y0 = ctx.real('x0'), ctx.real('y0')
        L, M, N = unit(ctx, 'd', 1, strict=True)
        rays = mkrays(ctx, x0, y0, -1.0, L, M, N)
        o.surface_group.trace(rays)
        # transfer the launch point to the plane of surface 1
        x0, y0 = x0 + L / N, y0 + M / N
    sg = o.surface_group
    i1_out = ctx.Or(x0 * x0 + y0 * y0 > r1 * r1)
    I1 = ctx.If(i1_out, 0.0, T) if ctx.sym else (0.0 if i1_out else T)
    # refraction at plane 1 (air -> n1): direction tangents scale
    if entry == 'trace_generic':
        l2, m2, nn2 = L, M, N
    else:
        l2, m2 = L / n1, M / n1
        nn2 = ctx.sqrt(1 - l2 * l2 - m2 * m2)
    seg = t1 / nn2
    x2, y2 = x0 + seg * l2, y0 + seg * m2 - dy2
    I2 = I1 * ctx.exp(-(4 * math.pi * kk / 0.55) * seg * 1e3)
    out2 = ctx.Or(x2 * x2 + y2 * y2 > r2 * r2)
    I2 = ctx.If(out2, 0.0, I2) if ctx.sym else (0.0 if out2 else I2)
    rec = [ctx.val(sg.intensity[k]) for k in range(4)]
    if not all(ctx.finite(v) for v in rec):
        ctx.note('non-finite intensity record (total internal reflection cannot occur here)')
        ctx.oblige('records_finite', False)
        return
    ctx.oblige('object_record', ctx.eq(rec[0], 1.0))
    ctx.oblige('surface1', ctx.eq(rec[1], I1))
    ctx.oblige('surface2', ctx.eq(rec[2], I2))
    ctx.oblige('image', ctx.eq(rec[3], I2))
    ctx.oblige('returned_rays', ctx.eq(rays.i, I2))
    ctx.oblige('monotone', ctx.And(ctx.le(rec[1], rec[0]), ctx.le(rec[2], rec[1]), ctx.le(rec[3], rec[2]), ctx.le(0.0, rec[3])))
    ctx.observe('I_img', rec[3])


@harness('C16', 'H6_rayfan_intensity', funcs=FUNCS, cases=lambda tier: [dict(n=3), dict(n=5)],
         stubs=['Optic.trace -> uninterpreted functions of (Hx,Hy,Px,Py,wavelength) per surface and quantity'],
         bounds='RayFan with 3 / 5 points per fan, 2 fields, 2 wavelengths, tracer = uninterpreted functions',
         doc='the intensities reported by RayFan for the x-fan and the y-fan are those of the rays of that fan at the image surface')
def h6_rayfan(ctx, n):
    from optiland.optic import Optic
    from optiland.analysis.ray_fan import RayFan
    from checks.uftrace import install_uf_tracer
    o = Optic()
    o.add_surface(index=0, thickness=np.inf)
    o.add_surface(index=1, thickness=5.0, is_stop=True)
    o.add_surface(index=2)
    o.set_aperture('EPD', 2.0)
    o.set_field_type('angle')
    o.add_field(y=0.0)
    o.add_field(y=ctx.real('fy', lo=1.0, hi=20.0))
    w1, w2 = ctx.real('w1', lo=0.4, hi=0.5), ctx.real('w2', lo=0.55, hi=0.7)
    o.add_wavelength(w1, is_primary=True)
    o.add_wavelength(w2)
    val = install_uf_tracer(ctx, o)
    fan = RayFan(o, num_points=n)
    last = 2
    P = [-1 + 2 * i / (n - 1) for i in range(n)]
    for field in fan.fields:
        for w in fan.wavelengths:
            dd = fan.data[f'{field}'][f'{w}']
            ix, iy = ctx.vals(dd['intensity_x']), ctx.vals(dd['intensity_y'])
            for i in range(n):
                ctx.oblige(f'ix_{i}', ctx.eq(ix[i], val('intensity', last, field[0], field[1], P[i], 0.0, w)))
                ctx.oblige(f'iy_{i}', ctx.eq(iy[i], val('intensity', last, field[0], field[1], 0.0, P[i], w)))
    ctx.observe('ix0', ix[0])
