"""C09 - reported OPD is the path difference to the chief-ray reference sphere (DESIGN §6 C09)."""
import math

import numpy as np

from symopt.harness import harness
from checks.common import ideal
from checks.uftrace import install_uf_tracer

FUNCS = ['optiland.wavefront.Wavefront._generate_data', 'optiland.wavefront.Wavefront._generate_field_data',
         'optiland.wavefront.Wavefront._trace_chief_ray', 'optiland.wavefront.Wavefront._get_reference_sphere',
         'optiland.wavefront.Wavefront._get_path_length', 'optiland.wavefront.Wavefront._correct_tilt',
         'optiland.wavefront.Wavefront._opd_image_to_xp', 'optiland.wavefront.OPD.rms', 'optiland.wavefront.OPDFan',
         'optiland.analysis.rms_vs_field.RmsWavefrontErrorVsField', 'optiland.optimization.operand.ray.RayOperand.OPD_difference']
STUBS3 = ['Wavefront._opd_image_to_xp -> uninterpreted function of the ray record at the image surface and the reference sphere']
STUBS = ['Optic.trace / trace_generic -> uninterpreted functions of (Hx,Hy,Px,Py,wavelength) per surface and quantity '
         '(the same arguments give the same ray: congruence)']


def slab(ctx, obj='inf', vig=False, nw=2, stop_last=False):
    """plane-surface lens (the prescription only supplies pupil positions, fields, wavelengths); the tracer is uninterpreted"""
    from optiland.optic import Optic
    o = Optic()
    t0 = np.inf if obj == 'inf' else ctx.real('t0', lo=1.0, hi=100.0)
    o.add_surface(index=0, thickness=t0)
    o.add_surface(index=1, thickness=ctx.real('t1', lo=0.1, hi=20.0), material=ideal(ctx.real('n1', lo=1.0, hi=2.0)), is_stop=not stop_last)
    o.add_surface(index=2, thickness=ctx.real('t2', lo=0.1, hi=50.0), is_stop=stop_last)
    o.add_surface(index=3)
    epd = ctx.real('epd', lo=0.1, hi=10.0)
    o.set_aperture('EPD', epd)
    o.set_field_type('angle' if obj == 'inf' else 'object_height')
    o.add_field(y=0.0)
    fy = ctx.real('fy', lo=0.1, hi=20.0)
    if vig:
        o.add_field(y=fy, vx=ctx.real('vx', lo=0.0, hi=0.5), vy=ctx.real('vy', lo=0.0, hi=0.5))
    else:
        o.add_field(y=fy)
    ws = [ctx.real('w1', lo=0.4, hi=0.5), ctx.real('w2', lo=0.55, hi=0.7)][:nw]
    o.add_wavelength(ws[0], is_primary=(nw == 1))
    if nw == 2:
        o.add_wavelength(ws[1], is_primary=True)
    return o, dict(epd=epd, fy=fy, ws=ws)


class TwoPoints:
    """caller-supplied distribution with symbolic points"""

    def __init__(self, ctx, pts):
        self.x = ctx.arr(*[p[0] for p in pts])
        self.y = ctx.arr(*[p[1] for p in pts])


class _Rec:
    """surface_group record stand-in: rec[-1, :] is the image-surface row"""

    def __init__(self, row):
        self.row = row

    def __getitem__(self, idx):
        return self.row


@harness('C09', 'H1_sphere_distance', cases=lambda tier: [dict(at='ray'), dict(at='centre')], funcs=FUNCS,
         bounds='one ray with arbitrary image-surface point and (not necessarily normalised) direction, arbitrary sphere centre and '
                'radius > 0; at=centre: the ray point is the sphere centre (the chief ray)',
         doc='Wavefront._opd_image_to_xp returns the parameter t for which p - t d lies on the reference sphere, choosing the smallest '
             'non-negative root (the larger root when both are negative); NaN exactly when the line misses the sphere; from the '
             'centre the distance t |d| is the radius')
def h1_sphere(ctx, at):
    from types import SimpleNamespace
    from optiland.wavefront import Wavefront
    xc, yc, zc = ctx.real('xc'), ctx.real('yc'), ctx.real('zc')
    R = ctx.real('R', lo=0.001, hi=1000.0)
    L, M, N = ctx.real('L'), ctx.real('M'), ctx.real('N')
    a = L * L + M * M + N * N
    ctx.assume(a > 0)
    if at == 'ray':
        xr, yr, zr = ctx.real('xr'), ctx.real('yr'), ctx.real('zr')
    else:
        xr, yr, zr = xc, yc, zc
    sg = SimpleNamespace(**{k: _Rec(ctx.arr(v)) for k, v in dict(x=xr, y=yr, z=zr, L=L, M=M, N=N).items()})
    wf = Wavefront.__new__(Wavefront)
    wf.optic = SimpleNamespace(surface_group=sg)
    t = ctx.val(wf._opd_image_to_xp(ctx.arr(xc), ctx.arr(yc), ctx.arr(zc), ctx.arr(R)))
    dx, dy, dz = xr - xc, yr - yc, zr - zc
    bq = L * dx + M * dy + N * dz               # d.(p - c)
    cq = dx * dx + dy * dy + dz * dz - R * R
    disc = bq * bq - a * cq
    if not ctx.finite(t):
        ctx.oblige('nan_only_if_line_misses_sphere', disc < 0)
        return
    ctx.oblige('finite_only_if_line_meets_sphere', disc >= 0)
    q = (dx - t * L, dy - t * M, dz - t * N)
    ctx.oblige('point_on_reference_sphere', ctx.eq(q[0] * q[0] + q[1] * q[1] + q[2] * q[2], R * R))
    t_other = 2 * bq / a - t
    ctx.oblige('documented_root', ctx.Or(ctx.And(t >= 0, ctx.Or(t_other < 0, t_other >= t)), ctx.And(t < 0, t_other <= t)))
    if at == 'centre':
        ctx.oblige('from_the_centre_the_distance_is_the_radius', ctx.And(t >= 0, ctx.eq(t * t * a, R * R)))
    ctx.observe('t', t)


def stub_sphere_distance(ctx, o, wm, log):
    """Wavefront._opd_image_to_xp -> uninterpreted function of the ray record and the sphere (decided by C09.H1_sphere_distance);
    returns the restore function"""
    sg = o.surface_group

    def to_sphere(self, xc, yc, zc, R):
        n = np.size(sg.x[-1, :])
        rec = [ctx.vals(a[-1, :]) for a in (sg.x, sg.y, sg.z, sg.L, sg.M, sg.N)]
        c = [ctx.val(v) for v in (xc, yc, zc, R)]
        log.append((rec, c))
        return ctx.arr(*[ctx.uf('t_sphere', *[r[i] for r in rec], *c) for i in range(n)])
    orig = wm.Wavefront._opd_image_to_xp
    wm.Wavefront._opd_image_to_xp = to_sphere

    def restore():
        wm.Wavefront._opd_image_to_xp = orig
    return restore


def cases_opd(tier):
    out = [dict(obj=o, wi=wi, sample='ray') for o in ('inf', 'finite') for wi in (0, 1)]
    out += [dict(obj='inf', wi=0, sample='chief'), dict(obj='finite', wi=1, sample='chief'), dict(obj='inf', wi=1, sample='ray', vig=True)]
    # two wavelengths and two fields analysed in ONE call: the sample looked at is the last field / last wavelength
    out += [dict(obj='inf', wi=0, sample='ray', multi=True), dict(obj='finite', wi=1, sample='ray', multi=True)]
    return out


@harness('C09', 'H1_opd_definition', cases=cases_opd, funcs=FUNCS, stubs=STUBS + STUBS3,
         bounds='2 fields x 2 wavelengths (primary and non-primary analysed; one field and wavelength per call, or both fields and both wavelengths in one call), caller-supplied 1-point distribution with symbolic pupil '
                'coordinates, uninterpreted tracer, real paraxial exit pupil of a plane-surface lens; the sphere distance is the '
                'uninterpreted function T decided in H1_sphere_distance',
         doc='reported OPD W = (chief path - ray path) / (wavelength in mm): paths are the traced optical path plus the start-point lead '
             '(H2) minus T(record, sphere), where the sphere handed to T is centred on the chief ray image point of the analysed field '
             'and wavelength with radius to the axial point of the paraxial exit pupil, and the records are those of the chief ray '
             'traced alone resp. of the sample; the sample with pupil coordinates (0,0) has OPD exactly 0')
def h1_opd(ctx, obj, wi, sample, vig=False, multi=False):
    from optiland import wavefront as wm
    o, nums = slab(ctx, obj, vig=vig)
    last = 3
    val = install_uf_tracer(ctx, o)
    w = nums['ws'][wi]
    H = (0.0, 1.0)
    p = (ctx.real('px', lo=-1.0, hi=1.0), ctx.real('py', lo=-1.0, hi=1.0)) if sample == 'ray' else (0.0, 0.0)
    pupil_z = ctx.val(o.paraxial.XPL()) + ctx.val(o.surface_group.positions[-1])
    log = []
    restore = stub_sphere_distance(ctx, o, wm, log)
    try:
        if multi:
            wf = wm.Wavefront(o, fields=[(0.0, 0.0), H], wavelengths=[nums['ws'][1 - wi], w], distribution=TwoPoints(ctx, [p]))
        else:
            wf = wm.Wavefront(o, fields=[H], wavelengths=[w], distribution=TwoPoints(ctx, [p]))
    finally:
        restore()
    opd_waves, inten = wf.data[-1][-1]
    if multi:
        ctx.oblige('sphere_distance_calls', len(log) == 8)
        log = log[-2:]
    W = ctx.val(opd_waves)
    ctx.oblige('intensity_reported', ctx.eq(ctx.val(inten), val('intensity', last, H[0], H[1], p[0], p[1], w)))
    if sample == 'chief':
        ctx.oblige('chief_ray_opd_is_finite', ctx.finite(W))
        if ctx.finite(W):
            ctx.oblige('chief_ray_opd_is_zero', ctx.eq(W, 0.0))
        return
    ctx.oblige('two_sphere_distances', len(log) == 2)
    if len(log) != 2 or not ctx.finite(W):
        ctx.oblige('finite', False)
        return
    chief = [val(q, last, H[0], H[1], 0.0, 0.0, w) for q in ('x', 'y', 'z', 'L', 'M', 'N')]
    ray = [val(q, last, H[0], H[1], p[0], p[1], w) for q in ('x', 'y', 'z', 'L', 'M', 'N')]
    xc, yc, zc = chief[:3]
    R2 = xc * xc + yc * yc + (zc - pupil_z) * (zc - pupil_z)
    for nm, (rec, c), want in (('chief', log[0], chief), ('ray', log[1], ray)):
        ctx.oblige(f'{nm}_record_handed_to_T', ctx.And(*[ctx.eq(r[0], v) for r, v in zip(rec, want)]))
        ctx.oblige(f'{nm}_sphere_centre', ctx.And(ctx.eq(c[0], xc), ctx.eq(c[1], yc), ctx.eq(c[2], zc)))
        ctx.oblige(f'{nm}_sphere_radius', ctx.And(c[3] >= 0, ctx.eq(c[3] * c[3], R2)))
    Rs = log[0][1][3]
    T_c = ctx.uf('t_sphere', *chief, xc, yc, zc, Rs)
    T_r = ctx.uf('t_sphere', *ray, xc, yc, zc, Rs)
    opd_c = val('opd', last, H[0], H[1], 0.0, 0.0, w)
    opd_r = val('opd', last, H[0], H[1], p[0], p[1], w)
    if obj == 'inf':
        sn = ctx.sin(nums['fy'] * H[1] * (math.pi / 180.0))
        vy = ctx.val(o.fields.get_vig_factor(*H)[1])
        lead_r = p[1] * (1 - vy) * (1 - vy) * sn * nums['epd'] / 2     # start point of the ray ahead of the chief ray wavefront (C09.H2)
    else:
        lead_r = 0.0
    ctx.oblige('opd_is_path_difference_in_waves', ctx.eq(W, ((opd_c - T_c) - (opd_r + lead_r - T_r)) / (w * 1e-3)))
    ctx.observe('opd', W)


@harness('C09', 'H2_common_wavefront', funcs=FUNCS, stubs=STUBS, cases=lambda tier: [dict(vig=False), dict(vig=True)],
         bounds='infinite object, angular field, stop at the first surface; the rays really launched by Optic.trace / trace_generic (captured at the real RayGenerator), symbolic pupil point '
                'and vignetting factors',
         doc='for an infinite object the paths are measured from a common wavefront perpendicular to the field direction: the tilt term '
             'applied to a ray minus that of the chief ray equals n0 (P_ray - P_chief) . d for the start points the generator actually uses')
def h2_common_wavefront(ctx, vig):
    from optiland.wavefront import Wavefront
    o, nums = slab(ctx, 'inf', vig=vig, nw=1)
    w = nums['ws'][0]
    H = (0.0, 1.0)
    px, py = ctx.real('px', lo=-1.0, hi=1.0), ctx.real('py', lo=-1.0, hi=1.0)
    # start points of the rays that Optic.trace REALLY launches for this distribution (captured at the ray generator) and of the chief ray
    launched = []
    real_gen = o.ray_generator.generate_rays

    class _Launched(Exception):
        pass

    def capture(*a, **k):
        launched.append(real_gen(*a, **k))
        raise _Launched()
    o.ray_generator.generate_rays = capture
    try:
        try:
            o.trace(H[0], H[1], w, None, TwoPoints(ctx, [(px, py)]))
        except _Launched:
            pass
        try:
            o.trace_generic(H[0], H[1], 0.0, 0.0, w)
        except _Launched:
            pass
    finally:
        o.ray_generator.generate_rays = real_gen
    rays, chief = launched
    d = (ctx.val(chief.L), ctx.val(chief.M), ctx.val(chief.N))
    dp = (ctx.val(rays.x) - ctx.val(chief.x), ctx.val(rays.y) - ctx.val(chief.y), ctx.val(rays.z) - ctx.val(chief.z))
    lead = dp[0] * d[0] + dp[1] * d[1] + dp[2] * d[2]        # the ray starts this far ahead of the chief ray's wavefront (n0 = 1)
    install_uf_tracer(ctx, o)
    wf = Wavefront.__new__(Wavefront)
    wf.optic = o
    wf.distribution = TwoPoints(ctx, [(px, py)])
    t_ray = ctx.val(wf._correct_tilt(H, ctx.arr(0.0)))
    t_chief = ctx.val(wf._correct_tilt(H, ctx.arr(0.0), x=0, y=0))
    # _correct_tilt returns the path measured from the common wavefront: a ray that starts `lead` ahead of it has that much added
    ctx.oblige('tilt_term_is_start_point_lead', ctx.eq((t_ray - t_chief), lead))
    ctx.observe('lead', lead)


@harness('C09', 'H3_derived', funcs=FUNCS, stubs=STUBS + STUBS3, cases=lambda tier: [dict(what=w) for w in ('rms', 'fan', 'vs_field', 'operand')],
         bounds='OPD.rms (1 hexapolar ring), OPDFan (3 points), RmsWavefrontErrorVsField (2 fields, distribution line_y with 3 rays), '
                'OPD_difference operand (caller distribution of 3 points); uninterpreted tracer',
         doc='OPD fans, RMS wavefront error, RMS-wavefront-versus-field and the OPD-difference operand are the OPD of C09-H1 evaluated '
             'on their documented pupil samples (same fields, wavelengths, distribution and ray count as requested)')
def h3_derived(ctx, what):
    from optiland import wavefront as wm
    o, nums = slab(ctx, 'finite', nw=1)
    w = nums['ws'][0]
    calls = []
    val = install_uf_tracer(ctx, o, calls=calls)
    restore = stub_sphere_distance(ctx, o, wm, [])
    try:
        _derived(ctx, what, o, w, calls, wm)
    finally:
        restore()


def _derived(ctx, what, o, w, calls, wm):
    if what == 'rms':
        a = wm.OPD(o, (0.0, 1.0), w, num_rings=1)
        base = wm.Wavefront(o, [(0.0, 1.0)], [w], 1, 'hexapolar')
        z = ctx.vals(base.data[0][0][0])
        if not all(ctx.finite(v) for v in z):
            return
        ms = z[0] * z[0]
        for v in z[1:]:
            ms = ms + v * v
        r = ctx.val(a.rms())
        ctx.oblige('rms_squared_is_mean_square', ctx.eq(r * r, ms / len(z)))
        ctx.oblige('rms_nonneg', ctx.le(0.0, r))
        ctx.oblige('ray_count', len(z) == 7)
    elif what == 'fan':
        a = wm.OPDFan(o, fields=[(0.0, 1.0)], wavelengths=[w], num_rays=3)
        base = wm.Wavefront(o, [(0.0, 1.0)], [w], 3, 'cross')
        za, zb = ctx.vals(a.data[0][0][0]), ctx.vals(base.data[0][0][0])
        ctx.oblige('fan_samples', len(za) == 6 and len(zb) == 6)
        for i in range(min(len(za), len(zb))):
            if ctx.finite(za[i]) and ctx.finite(zb[i]):
                ctx.oblige(f'fan_{i}', ctx.eq(za[i], zb[i]))
        ctx.oblige('pupil_axis', all(bool(ctx.eq(v, t)) for v, t in zip(ctx.vals(a.pupil_coord), (-1.0, 0.0, 1.0))))
    elif what == 'vs_field':
        from optiland.analysis.rms_vs_field import RmsWavefrontErrorVsField
        calls.clear()
        a = RmsWavefrontErrorVsField(o, num_fields=2, wavelengths=[w], num_rays=3, distribution='line_y')
        # the traces requested: fields (0,0) and (0,1), with the 3-ray line_y fan (plus the chief rays)
        fans = [c for c in calls if len(c[0]) == 3]
        ctx.oblige('two_fans_of_three_rays', len(fans) == 2)
        if len(fans) == 2:
            ctx.oblige('requested_distribution_used', all(bool(ctx.eq(c[2][i], 0.0)) for c in fans for i in range(3)) and
                       all(bool(ctx.eq(c[3][i], t)) for c in fans for i, t in enumerate((-1.0, 0.0, 1.0))))
            ctx.oblige('fields_0_and_1', all(bool(ctx.eq(c[1][0], t)) for c, t in zip(fans, (0.0, 1.0))))
        base = wm.Wavefront(o, [(0, 0.0), (0, 1.0)], [w], 3, 'line_y')
        err = a._wavefront_error
        for i in range(2):
            z = ctx.vals(base.data[i][0][0])
            if not all(ctx.finite(v) for v in z):
                continue
            ms = (z[0] * z[0] + z[1] * z[1] + z[2] * z[2]) / 3
            e = ctx.val(err[i, 0])
            ctx.oblige(f'rms_field_{i}', ctx.eq(e * e, ms))
    else:
        from optiland.optimization.operand.ray import RayOperand
        pts = [(ctx.real(f'x{i}', lo=-1.0, hi=1.0), ctx.real(f'y{i}', lo=-1.0, hi=1.0)) for i in range(2)] + [(0.0, 0.0)]
        dist = TwoPoints(ctx, pts)
        got = ctx.val(RayOperand.OPD_difference(o, 0.0, 1.0, 3, w, distribution=dist))
        base = wm.Wavefront(o, [(0.0, 1.0)], [w], 3, dist)
        z = ctx.vals(base.data[0][0][0])
        if not all(ctx.finite(v) for v in z):
            return
        mean = (z[0] + z[1] + z[2]) / 3
        want = (ctx.abs(z[0] - mean) + ctx.abs(z[1] - mean) + ctx.abs(z[2] - mean)) / 3
        ctx.oblige('mean_absolute_deviation', ctx.eq(got, want))
    ctx.observe('w', w)
