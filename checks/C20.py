"""C20 - Zemax import reproduces the prescription written in the file (DESIGN §6 C20)."""
import os
import tempfile

import numpy as np

from symopt.harness import harness

FUNCS = ['optiland.fileio.zemax_handler.ZemaxFileReader', 'optiland.fileio.zemax_handler.load_zemax_file',
         'optiland.fileio.converters.ZemaxToOpticConverter', 'optiland.materials.abbe.AbbeMaterial',
         'optiland.optic.Optic.add_surface', 'optiland.paraxial.Paraxial.f2']

TOKENS = {}


def sym_setup():
    """numeric tokens of the generated file are placeholders '@name' bound to symbols by a shadowed float() in the reader"""
    import optiland.fileio.zemax_handler as zh
    from symopt.sv import SV
    from symopt import facade

    def zfloat(x=0.0):
        if isinstance(x, str) and x in TOKENS:
            v = TOKENS[x]
            return SV(v.c, v.n, py=True, d=v.d)
        r = facade.sym_float(x)
        return r if isinstance(r, SV) else SV(r, py=True)
    zh.float = zfloat


class File:
    """builds the text of a .zmx file; numbers are symbols (sym mode: tokens; conc mode: their repr)"""

    def __init__(self, ctx):
        self.ctx = ctx
        self.lines = []

    def num(self, name, **kw):
        v = self.ctx.real(name, **kw)
        if self.ctx.sym:
            tok = '@' + name
            TOKENS[tok] = v
            return v, tok
        return v, repr(float(v))

    def add(self, s):
        self.lines.append(s)

    def write(self, encoding):
        fd, fn = tempfile.mkstemp(suffix='.zmx')
        os.close(fd)
        with open(fn, 'w', encoding=encoding) as f:
            f.write('\n'.join(self.lines) + '\n')
        return fn


def cases_import(tier):
    out = []
    out.append(dict(K=1, ap='ENPD', ft=0, nf=1, nw=1, pw=1, stop=1, obj='inf', asph=(), enc='utf-8', glass='model', parax=True))
    out.append(dict(K=1, ap='ENPD', ft=0, nf=1, nw=1, pw=1, stop=1, obj='inf', asph=(), enc='utf-16', glass='model', parax=False))
    out.append(dict(K=2, ap='FNUM', ft=0, nf=2, nw=2, pw=2, stop=2, obj='inf', asph=(), enc='utf-8', glass='model', parax=False))
    out.append(dict(K=2, ap='OBNA', ft=1, nf=3, nw=1, pw=1, stop=1, obj='finite', asph=(2,), enc='utf-16', glass='model', parax=False))
    out.append(dict(K=3, ap='ENPD', ft=0, nf=1, nw=3, pw=3, stop=2, obj='inf', asph=(1,), enc='utf-8', glass='model2', parax=False))
    out.append(dict(K=2, ap='ENPD', ft=0, nf=2, nw=2, pw=1, stop=1, obj='inf', asph=(), enc='utf-8', glass='catalog', parax=False))
    # a two-dimensional field set: three field points, two of them with the SAME y and different x
    out.append(dict(K=1, ap='ENPD', ft=0, nf=3, nw=1, pw=1, stop=1, obj='inf', asph=(), enc='utf-8', glass='model', parax=False, xf=True))
    if tier == 'thorough':
        out.append(dict(K=4, ap='ENPD', ft=0, nf=3, nw=3, pw=2, stop=3, obj='finite', asph=(2, 4), enc='utf-8', glass='model2', parax=False))
        out.append(dict(K=6, ap='FNUM', ft=0, nf=2, nw=2, pw=2, stop=4, obj='inf', asph=(), enc='utf-16', glass='model2', parax=False))
        out.append(dict(K=2, ap='FNUM', ft=0, nf=2, nw=2, pw=2, stop=2, obj='inf', asph=(), enc='utf-8', glass='model', parax=True))
        out.append(dict(K=3, ap='ENPD', ft=0, nf=1, nw=2, pw=2, stop=2, obj='inf', asph=(), enc='utf-8', glass='model2', parax=True))
    return out


@harness('C20', 'H1_import', cases=cases_import, funcs=FUNCS,
         bounds='generated sequential .zmx files with 1-3 (thorough 6) real surfaces, STANDARD / EVENASPH (8 parameters), ENPD / FNUM / OBNA, '
                'angle / object-height fields (1-3, symbolic, may coincide), 1-3 wavelengths with any primary index, stop at any surface, '
                'model glasses (symbolic n_d, V_d; two surfaces sharing the name ___BLANK) and one catalogue glass, CURV 0 planes, '
                'DISZ INFINITY, UTF-8 and UTF-16; every numeric token symbolic',
         doc='load_zemax_file yields surface count, radii (1/CURV or infinity), vertex positions = running sums of DISZ, conics, '
             'PARM n -> coefficient n-1, media, stop, aperture type/value, field type and de-duplicated sorted values, wavelengths and '
             'primary exactly as written; hence the paraxial focal length equals the y-nu trace of the written numbers')
def h1_import(ctx, K, ap, ft, nf, nw, pw, stop, obj, asph, enc, glass, parax, xf=False):
    from optiland.fileio import load_zemax_file
    from optiland.materials import AbbeMaterial, Material
    F = File(ctx)
    F.add('VERS 140124 258 36214')
    F.add('MODE SEQ')
    F.add('NAME generated')
    F.add('UNIT MM X W X CM MR CPMM')
    apv, tok = F.num('apv', lo=0.05, hi=(0.6 if ap == 'OBNA' else 20.0))
    F.add(f'{ap} {tok}' + (' 0' if ap in ('FNUM', 'OBNA') else ' 1 0'))
    F.add(f'FTYP {ft} 0 {nf} {nw} 0 0 0')
    F.add('GCAT SCHOTT')
    fys = []
    toks = []
    fxs, xtoks = [], []
    for i in range(nf):
        if xf and i == 1:
            v, t = fys[0], toks[0]              # the second field point repeats the y of the first one
        else:
            v, t = F.num(f'fy{i}', lo=0.0, hi=30.0)
        fys.append(v)
        toks.append(t)
        if xf:
            vx_, tx_ = F.num(f'fx{i}', lo=0.0, hi=30.0)
            fxs.append(vx_)
            xtoks.append(tx_)
    if xf:
        ctx.assume(ctx.Not(fxs[0] == fxs[1]))
    F.add('XFLN ' + ' '.join((xtoks if xf else ['0'] * nf) + ['0'] * (12 - nf)))
    F.add('YFLN ' + ' '.join(toks + ['0'] * (12 - nf)))
    ws = []
    for i in range(nw):
        v, t = F.num(f'w{i}', lo=0.35, hi=1.0)
        ws.append(v)
        F.add(f'WAVM {i + 1} {t} 1')
    for i in range(nw, 4):
        F.add(f'WAVM {i + 1} 0.55 1')      # unused slots, as Zemax writes them
    F.add(f'PWAV {pw}')
    # object surface
    F.add('SURF 0')
    F.add('  TYPE STANDARD')
    F.add('  CURV 0.0 0 0 0 0 ""')
    if obj == 'inf':
        t0 = np.inf
        F.add('  DISZ INFINITY')
    else:
        t0, tk = F.num('t0', lo=1.0, hi=500.0)
        F.add(f'  DISZ {tk}')
    curv, thick, conic, coefs, mats = [], [], [], [], []
    for k in range(1, K + 1):
        F.add(f'SURF {k}')
        if k == stop:
            F.add('  STOP')
        F.add('  TYPE ' + ('EVENASPH' if k in asph else 'STANDARD'))
        if k == K and K > 1:
            c, tc = ctx.const(0.0), '0.0'          # a plane written as CURV 0
        else:
            c, tc = F.num(f'c{k}')
        F.add(f'  CURV {tc} 0 0 0 0 ""')
        curv.append(c)
        if k in asph:
            cc = []
            for j in range(1, 9):
                if j <= 3:
                    v, t = F.num(f'a{k}_{j}')
                else:
                    v, t = ctx.const(0.0), '0.0'
                cc.append(v)
                F.add(f'  PARM {j} {t}')
            coefs.append(cc)
        else:
            coefs.append(None)
        t, tt = F.num(f't{k}', lo=0.0, hi=100.0)
        F.add(f'  DISZ {tt}')
        thick.append(t)
        if k % 2 == 1:
            if glass == 'catalog' and k == 1:
                F.add('  GLAS N-BK7 0 0 1.5168 64.17 0 0 0 0 0 0')
                mats.append(('catalog', 'N-BK7'))
            else:
                nd, tn = F.num(f'nd{k}', lo=1.45, hi=1.9)
                vd, tv = F.num(f'vd{k}', lo=25.0, hi=70.0)
                name = '___BLANK' if glass in ('model2', 'catalog') else f'QQGLASS{k}'
                F.add(f'  GLAS {name} 1 0 {tn} {tv} 0 0 0 0 0 0')
                mats.append(('model', nd, vd))
        else:
            mats.append(('air',))
        kc, tkc = F.num(f'k{k}')
        F.add(f'  CONI {tkc}')
        conic.append(kc)
        F.add('  DIAM 10 0 0 0 1 ""')
    F.add(f'SURF {K + 1}')
    F.add('  TYPE STANDARD')
    F.add('  CURV 0.0 0 0 0 0 ""')
    F.add('  DISZ 0')
    fn = F.write(enc)
    try:
        o = load_zemax_file(fn)
    finally:
        os.unlink(fn)
    sg = o.surface_group
    ctx.oblige('surface_count', sg.num_surfaces == K + 2)
    pos = sg.positions
    run = ctx.const(0.0)
    for k in range(1, K + 1):
        s = sg.surfaces[k]
        c = curv[k - 1]
        plane = bool(c == 0)
        if plane:
            ctx.oblige(f'radius{k}_infinite', not ctx.finite(sg.radii[k]))
        else:
            ctx.oblige(f'radius{k}', ctx.eq(sg.radii[k], 1 / c))
            ctx.oblige(f'conic{k}', ctx.eq(sg.conic[k], conic[k - 1]))
        ctx.oblige(f'vertex{k}', ctx.eq(pos[k], run))
        run = run + thick[k - 1]
        if coefs[k - 1] is not None:
            cs = ctx.vals(s.geometry.c)
            ctx.oblige(f'ncoef{k}', len(cs) == 8)
            for j in range(min(8, len(cs))):
                ctx.oblige(f'coef{k}_{j}', ctx.eq(cs[j], coefs[k - 1][j]))
            ctx.oblige(f'type{k}', type(s.geometry).__name__ == 'EvenAsphere')
        else:
            ctx.oblige(f'type{k}', type(s.geometry).__name__ in ('StandardGeometry', 'Plane'))
        m = mats[k - 1]
        if m[0] == 'model':
            ctx.oblige(f'medium{k}_is_model_glass', isinstance(s.material_post, AbbeMaterial))
            if isinstance(s.material_post, AbbeMaterial):
                ctx.oblige(f'medium{k}_nd', ctx.eq(s.material_post.index, m[1]))
                ctx.oblige(f'medium{k}_vd', ctx.eq(s.material_post.abbe, m[2]))
        elif m[0] == 'catalog':
            ctx.oblige(f'medium{k}_is_catalog_glass', isinstance(s.material_post, Material) and s.material_post.name == 'N-BK7')
        else:
            ctx.oblige(f'medium{k}_air', ctx.eq(s.material_post.n(0.55), 1.0))
        ctx.oblige(f'stop_flag{k}', bool(s.is_stop) == (k == stop))
    ctx.oblige('image_vertex', ctx.eq(pos[K + 1], run))
    if obj == 'inf':
        ctx.oblige('object_at_infinity', not ctx.finite(pos[0]))
    else:
        ctx.oblige('object_distance', ctx.eq(pos[0], -t0))
    ctx.oblige('stop_index', sg.stop_index == stop)
    ctx.oblige('aperture_type', o.aperture.ap_type == {'ENPD': 'EPD', 'FNUM': 'imageFNO', 'OBNA': 'objectNA'}[ap])
    ctx.oblige('aperture_value', ctx.eq(o.aperture.value, apv))
    ctx.oblige('field_type', o.field_type == ('angle' if ft == 0 else 'object_height'))
    # fields: de-duplicated, sorted by y
    uniq = []
    for v in fys:
        if not any(bool(v == u) for u in uniq):
            uniq.append(v)
    for i in range(1, len(uniq)):
        j = i
        while j > 0 and bool(uniq[j] < uniq[j - 1]):
            uniq[j], uniq[j - 1] = uniq[j - 1], uniq[j]
            j -= 1
    got = ctx.vals(o.fields.y_fields)
    if xf:
        # distinct (x, y) pairs as written, in non-decreasing y
        pairs = []
        for px_, py_ in zip(fxs, fys):
            if not any(bool(ctx.And(px_ == qx, py_ == qy)) for qx, qy in pairs):
                pairs.append((px_, py_))
        gx = ctx.vals(o.fields.x_fields)
        ctx.oblige('field_count', len(got) == len(pairs) and len(gx) == len(got))
        for i, (px_, py_) in enumerate(pairs):
            ctx.oblige(f'field_point_{i}_imported', ctx.Or(*[ctx.And(ctx.eq(a, px_), ctx.eq(b, py_)) for a, b in zip(gx, got)]))
        ctx.oblige('sorted_by_y', ctx.And(*[ctx.le(got[i], got[i + 1]) for i in range(len(got) - 1)]) if len(got) > 1 else True)
    else:
        ctx.oblige('field_count', len(got) == len(uniq))
        for i in range(min(len(got), len(uniq))):
            ctx.oblige(f'field{i}', ctx.eq(got[i], uniq[i]))
        ctx.oblige('x_fields_zero', all(bool(v == 0) for v in ctx.vals(o.fields.x_fields)))
    wl = o.wavelengths.get_wavelengths()
    ctx.oblige('wavelength_count', len(wl) == nw)
    for i in range(min(len(wl), nw)):
        ctx.oblige(f'wavelength{i}', ctx.eq(wl[i], ws[i]))
    ctx.oblige('primary_index', o.wavelengths.primary_index == pw - 1)
    ctx.oblige('primary_wavelength', ctx.eq(o.primary_wavelength, ws[pw - 1]))
    # paraxial consequence: focal length = y-nu trace of the written numbers with the media's indices at the primary wavelength
    if not parax:
        ctx.observe('z_img', pos[K + 1])
        return
    y, u, n_prev = ctx.const(1.0), ctx.const(0.0), ctx.const(1.0)
    wp = ws[pw - 1]
    for k in range(1, K + 1):
        n_new = ctx.val(sg.surfaces[k].material_post.n(wp))
        if k > 1:
            y = y + thick[k - 2] * u
        u = (n_prev * u - y * curv[k - 1] * (n_new - n_prev)) / n_new
        n_prev = n_new
    u_img = n_prev * u      # the image surface refracts into air
    f2 = o.paraxial.f2()
    if ctx.finite(f2) and ctx.finite(-1 / u_img):
        ctx.oblige('focal_length_from_written_numbers', ctx.eq(f2, -1 / u_img))
    ctx.observe('z_img', pos[K + 1])


@harness('C20', 'H2_rejects', funcs=FUNCS, cases=lambda tier: [dict(mode='NSC'), dict(mode='MIXED')],
         bounds='files whose MODE record is not SEQ',
         doc='files in non-sequential mode are rejected with ValueError')
def h2_rejects(ctx, mode):
    from optiland.fileio import load_zemax_file
    F = File(ctx)
    F.add('VERS 140124 258 36214')
    F.add(f'MODE {mode}')
    F.add('ENPD 10 1 0')
    F.add('FTYP 0 0 1 1 0 0 0')
    F.add('XFLN 0')
    F.add('YFLN 0')
    F.add('WAVM 1 0.55 1')
    F.add('PWAV 1')
    for k in range(3):
        F.add(f'SURF {k}')
        F.add('  TYPE STANDARD')
        F.add('  CURV 0.0')
        F.add('  DISZ 1')
    fn = F.write('utf-8')
    try:
        ctx.oblige('rejected', ctx.raises((ValueError,), load_zemax_file, fn))
    finally:
        os.unlink(fn)
