"""C03 - rays start at the requested field point and aim at the requested pupil point (DESIGN §6 C03)."""
import math

import numpy as np

from symopt.harness import harness
from checks.C04 import Lens

FUNCS = ['optiland.rays.ray_generator.RayGenerator.generate_rays', 'optiland.rays.ray_generator.RayGenerator._get_ray_origins',
         'optiland.rays.ray_generator.RayGenerator._get_starting_z_offset', 'optiland.fields.FieldGroup.get_vig_factor',
         'optiland.optic.Optic.trace', 'optiland.optic.Optic.trace_generic', 'optiland.paraxial.Paraxial.EPL',
         'optiland.paraxial.Paraxial.EPD', 'optiland.distribution']

LEGAL = [  # (object, field type, aperture type, telecentric)
    ('inf', 'angle', 'EPD', False), ('inf', 'angle', 'imageFNO', False),
    ('finite', 'angle', 'EPD', False), ('finite', 'angle', 'objectNA', False), ('finite', 'object_height', 'EPD', False),
    ('finite', 'object_height', 'objectNA', False), ('finite', 'object_height', 'imageFNO', False),
    ('finite', 'object_height', 'objectNA', True)]
ILLEGAL = [
    ('inf', 'object_height', 'EPD', False), ('inf', 'angle', 'objectNA', True), ('inf', 'object_height', 'objectNA', True),
    ('finite', 'object_height', 'EPD', True), ('finite', 'object_height', 'imageFNO', True), ('finite', 'angle', 'objectNA', True)]


def cases_launch(tier):
    out = []
    for (obj, ft, ap, tele) in LEGAL:
        out.append(dict(obj=obj, ft=ft, ap=ap, tele=tele, K=1, stop=1, vig=False))
        if not tele:
            out.append(dict(obj=obj, ft=ft, ap=ap, tele=tele, K=2, stop=2, vig=(ap == 'EPD')))
    if tier == 'thorough':
        for (obj, ft, ap, tele) in LEGAL:
            if not tele:
                out.append(dict(obj=obj, ft=ft, ap=ap, tele=tele, K=3, stop=2, vig=True))
    return out


def build(ctx, obj, ft, ap, tele, K, stop, vig, planes=()):
    L = Lens(ctx, K, (), stop, obj, planes=planes, tpos=True)
    apv = ctx.real('apv', lo=0.05, hi=(0.8 if ap == 'objectNA' else 30.0))
    fy = ctx.real('fy', lo=0.1, hi=(40.0 if ft == 'angle' else 30.0))
    o = L.build(aperture=(ap, apv), field_type=ft, fields=())
    vx = vy = 0.0
    if vig:
        vx, vy = ctx.real('vx', lo=0.0, hi=0.9), ctx.real('vy', lo=0.0, hi=0.9)
    o.add_field(y=0.0)
    o.add_field(y=fy, vx=vx, vy=vy)
    if tele:
        o.obj_space_telecentric = True
    return L, o, apv, fy, vx, vy


def pupil_oracle(ctx, L, K, stop, ap, apv, obj):
    c_, t_, nb, na = L.full()
    n0 = nb[0]
    Ms = L.forward(0, stop - 1, True, False)
    EPL = Ms[0][1] * n0 / Ms[0][0]
    if ap == 'EPD':
        EPD = apv
    elif ap == 'imageFNO':
        M = L.forward()
        EPD = (-na[-1] / M[1][0]) / apv
    else:
        sn = apv / n0
        EPD = 2 * (EPL + L.t0) * (sn / ctx.sqrt(1 - sn * sn))
    return EPL, EPD


@harness('C03', 'H1_launch', cases=cases_launch, funcs=FUNCS,
         bounds='every legal aperture x field x object x telecentric combination; K=1 (stop first) and K=2 (stop last) lenses with all '
                'R,t,n symbolic; symbolic Hy in [-1,1], (Px,Py) in [-1,1]^2, maximum field, aperture value, vignetting factors',
         doc='generate_rays: origin at the field point / direction at the field angle, line through the pupil point '
             '(Px(1-vx), Py(1-vy)) EPD/2 of the entrance pupil plane computed from ABCD matrices, unit direction towards the lens, '
             'intensity 1, zero path, requested wavelength; telecentric: chief ray parallel to the axis, marginal sine = NA')
def h1_launch(ctx, obj, ft, ap, tele, K, stop, vig):
    L, o, apv, fy, vx, vy = build(ctx, obj, ft, ap, tele, K, stop, vig)
    Hy = ctx.real('Hy', lo=-1.0, hi=1.0)
    Px, Py = ctx.real('Px', lo=-1.0, hi=1.0), ctx.real('Py', lo=-1.0, hi=1.0)
    w = ctx.real('w', lo=0.4, hi=0.7)
    if not tele:
        # the aperture specification must describe a pupil: positive entrance pupil diameter
        EPL_, EPD_ = pupil_oracle(ctx, L, K, stop, ap, apv, obj)
        if ctx.finite(EPD_):
            ctx.assume(EPD_ > 0)
    rays = o.ray_generator.generate_rays(0.0, Hy, ctx.arr(Px), ctx.arr(Py), w)
    x0, y0, z0 = ctx.val(rays.x), ctx.val(rays.y), ctx.val(rays.z)
    d = (ctx.val(rays.L), ctx.val(rays.M), ctx.val(rays.N))
    if not all(ctx.finite(v) for v in (x0, y0, z0) + d):
        ctx.note('non-finite launch (degenerate pupil)')
        EPL, EPD = pupil_oracle(ctx, L, K, stop, ap, apv, obj)
        if ctx.finite(EPL) and ctx.finite(EPD) and not tele and all(ctx.finite(v) for v in (x0, y0, z0)):
            # the only legitimate reason: the pupil point coincides with the ray's starting point (no direction defined)
            h_ = ctx.abs(Hy)
            ctx.oblige('nonfinite_only_if_aim_is_origin',
                       ctx.And(EPL == z0, Px * (1 - h_ * vx) * EPD / 2 == x0, Py * (1 - h_ * vy) * EPD / 2 == y0))
        else:
            ctx.oblige('nonfinite_only_if_pupil_degenerate', not (ctx.finite(EPL) and ctx.finite(EPD)))
        return
    ctx.observe('y0', y0)
    ctx.observe('M', d[1])
    h = ctx.abs(Hy)
    svx, svy = 1 - h * vx, 1 - h * vy            # vignetting interpolated linearly in |H| between the two fields
    ctx.oblige('unit', ctx.eq(d[0] * d[0] + d[1] * d[1] + d[2] * d[2], 1.0))
    ctx.oblige('intensity_one', ctx.eq(rays.i, 1.0))
    ctx.oblige('opd_zero', ctx.eq(rays.opd, 0.0))
    ctx.oblige('wavelength', ctx.eq(rays.w, w))
    if tele:
        zobj = -L.t0
        ctx.oblige('origin_x', ctx.eq(x0, 0.0))
        ctx.oblige('origin_y', ctx.eq(y0, Hy * fy))
        ctx.oblige('origin_z', ctx.eq(z0, zobj))
        # direction = (Px svx, Py svy, cot(asin NA)) normalised
        cot = ctx.sqrt(1 - apv * apv) / apv
        aim = (Px * svx, Py * svy, cot)
        cr = (aim[1] * d[2] - aim[2] * d[1], aim[2] * d[0] - aim[0] * d[2], aim[0] * d[1] - aim[1] * d[0])
        for i, a in enumerate('xyz'):
            ctx.oblige(f'telecentric_direction_{a}', ctx.eq(cr[i], 0.0))
        ctx.oblige('forward', ctx.le(0.0, d[2]))
        return
    EPL, EPD = pupil_oracle(ctx, L, K, stop, ap, apv, obj)
    if not (ctx.finite(EPL) and ctx.finite(EPD)):
        ctx.oblige('finite_launch_but_pupil_undefined', False)
        return
    aim = (Px * svx * EPD / 2, Py * svy * EPD / 2, EPL)
    v = (aim[0] - x0, aim[1] - y0, aim[2] - z0)
    cr = (v[1] * d[2] - v[2] * d[1], v[2] * d[0] - v[0] * d[2], v[0] * d[1] - v[1] * d[0])
    for i, a in enumerate('xyz'):
        ctx.oblige(f'aims_at_pupil_point_{a}', ctx.eq(cr[i], 0.0))
    ctx.oblige('travels_towards_the_lens', ctx.le(0.0, d[2]))
    if obj == 'finite':
        zobj = -L.t0
        ctx.oblige('origin_z', ctx.eq(z0, zobj))
        ctx.oblige('origin_x', ctx.eq(x0, 0.0))
        if ft == 'object_height':
            ctx.oblige('origin_y', ctx.eq(y0, Hy * fy))
        else:
            tn = ctx.tan(Hy * fy * (math.pi / 180.0))
            ctx.oblige('origin_y', ctx.eq(y0, -tn * (EPL - zobj)))
    else:
        tn = ctx.tan(Hy * fy * (math.pi / 180.0))
        ctx.oblige('field_angle', ctx.eq(d[1], tn * d[2]))     # M/N = tan(Hy * max field)
        ctx.oblige('no_x_tilt_for_y_field', ctx.eq(d[0], 0.0))
        ctx.oblige('starts_in_front_of_lens', ctx.le(z0, 0.0))


@harness('C03', 'H2_illegal', funcs=FUNCS,
         cases=lambda tier: [dict(obj=a, ft=b, ap=c, tele=d) for (a, b, c, d) in ILLEGAL],
         bounds='every unrepresentable combination, K=1 lens with symbolic numbers',
         doc='height fields or telecentricity with an infinite object, EPD / image F-number / angular fields with telecentric object '
             'space are rejected with ValueError before any ray exists')
def h2_illegal(ctx, obj, ft, ap, tele):
    L, o, apv, fy, vx, vy = build(ctx, obj, ft, ap, tele, 1, 1, False)
    Hy = ctx.real('Hy', lo=-1.0, hi=1.0)
    P = ctx.real('Py', lo=-1.0, hi=1.0)
    got = ctx.raises((ValueError,), o.ray_generator.generate_rays, 0.0, Hy, ctx.arr(0.0), ctx.arr(P), 0.55)
    ctx.oblige('rejected_with_ValueError', got)
    got2 = ctx.raises((ValueError,), o.trace_generic, 0.0, Hy, ctx.arr(0.0), ctx.arr(P), 0.55)
    ctx.oblige('trace_generic_rejected', got2)


@harness('C03', 'H3_trace_entry', funcs=FUNCS,
         cases=lambda tier: [dict(entry=e, obj=ob) for e in ('trace_generic', 'trace') for ob in ('inf', 'finite')],
         bounds='K=1 lens, stop first; symbolic vignetting factors in [0,0.9]; trace() with a caller-supplied 2-point distribution',
         doc='Optic.trace / trace_generic launch the ray recorded on the object surface towards a pupil point that is the requested one '
             'shrunk (never enlarged, never mirrored) by the vignetting factors, and exactly the requested one without vignetting')
def h3_trace_entry(ctx, entry, obj):
    ft = 'angle' if obj == 'inf' else 'object_height'
    L, o, apv, fy, vx, vy = build(ctx, obj, ft, 'EPD', False, 1, 1, True, planes=(1,))
    Hy = ctx.real('Hy', lo=-1.0, hi=1.0)
    Px, Py = ctx.real('Px', lo=-1.0, hi=1.0), ctx.real('Py', lo=-1.0, hi=1.0)
    if entry == 'trace_generic':
        o.trace_generic(0.0, Hy, ctx.arr(Px), ctx.arr(Py), 0.55)
    else:
        class Dist:
            pass
        dist = Dist()
        dist.x, dist.y = ctx.arr(Px), ctx.arr(Py)
        o.trace(0.0, Hy, 0.55, distribution=dist)
    sg = o.surface_group
    p0 = [ctx.val(v[0]) for v in (sg.x, sg.y, sg.z)]
    d0 = [ctx.val(v[0]) for v in (sg.L, sg.M, sg.N)]
    if not all(ctx.finite(v) for v in p0 + d0):
        ctx.oblige('launch_finite', False)
        return
    # intersection of the launched line with the entrance pupil plane z = 0 (stop = first surface)
    tt = (0.0 - p0[2]) / d0[2]
    ax, ay = p0[0] + tt * d0[0], p0[1] + tt * d0[1]
    ctx.observe('aim_y', ay)
    half = apv / 2
    for nm, a, P in (('x', ax, Px), ('y', ay, Py)):
        ctx.oblige(f'aim_{nm}_not_enlarged', ctx.le(a * a, (P * half) * (P * half)))
        ctx.oblige(f'aim_{nm}_same_side', ctx.le(0.0, a * P))
    h = ctx.abs(Hy)
    for nm, a, P, v in (('x', ax, Px, vx), ('y', ay, Py, vy)):
        ctx.oblige(f'aim_{nm}_exact_without_vignetting', ctx.Implies(ctx.Or(v == 0, h == 0), ctx.eq(a, P * half)))


# ------------------------------------------------------------------------------------ distributions
def cases_dist(tier):
    out = []
    ns = (1, 2, 3, 5, 8) if tier == 'quick' else tuple(range(1, 13))
    for kind in ('line_x', 'line_y', 'positive_line_x', 'positive_line_y', 'uniform', 'cross', 'ring', 'random'):
        for n in ns:
            out.append(dict(kind=kind, n=n))
    for n in ((1, 2, 3, 4) if tier == 'quick' else (1, 2, 3, 4, 5, 6)):
        out.append(dict(kind='hexapolar', n=n))
    for n in (1, 2, 3, 4, 5, 6):
        out.append(dict(kind='gq', n=n))
        out.append(dict(kind='gq_sym', n=n))
    return out


def expected_count(kind, n):
    if kind in ('line_x', 'line_y', 'positive_line_x', 'positive_line_y', 'ring', 'random'):
        return n
    if kind == 'cross':
        return 2 * n
    if kind == 'hexapolar':
        return 1 + 3 * n * (n + 1)
    if kind == 'uniform':
        # grid points of linspace(-1, 1, n)^2 inside the unit disk; points exactly ON the rim (e.g. (0.6, 0.8) for n = 11) may fall on
        # either side in floating point: both counts are accepted
        from fractions import Fraction
        g = [Fraction(-1) + Fraction(2 * i, n - 1) for i in range(n)] if n > 1 else [Fraction(-1)]
        inside = sum(1 for a in g for b in g if a * a + b * b < 1)
        rim = sum(1 for a in g for b in g if a * a + b * b == 1)
        return (inside, inside + rim)
    if kind == 'gq':
        return 3 * n
    if kind == 'gq_sym':
        return n


@harness('C03', 'H4_distributions', cases=cases_dist, funcs=FUNCS,
         bounds='every named distribution, sizes 1..8 (thorough 12; hexapolar rings <= 4/6; Gaussian quadrature 1..6), symbolic '
                'vignetting factors in [0,1]; random: generator stubbed by arbitrary r in [0,1), theta',
         stubs=['numpy.random.Generator.uniform -> arbitrary values in the documented range'],
         doc='documented number of points, all inside the unit pupil, vignetting can only shrink the sampled pupil')
def h4_dist(ctx, kind, n):
    from optiland import distribution as dmod
    vx, vy = ctx.real('vx', lo=0.0, hi=1.0), ctx.real('vy', lo=0.0, hi=1.0)
    if kind == 'gq':
        d = dmod.GaussianQuadrature(False)
    elif kind == 'gq_sym':
        d = dmod.GaussianQuadrature(True)
    else:
        d = dmod.create_distribution(kind)
    if kind == 'random':
        rs = [ctx.real(f'r{i}', lo=0.0, hi=1.0, hi_strict=True) for i in range(n)]
        ths = [ctx.real(f'th{i}', lo=0.0, hi=6.2831853) for i in range(n)]
        seq = [ctx.arr(*rs), ctx.arr(*ths)]

        class Rng:
            def uniform(self, *a, **k):
                return seq.pop(0)
        d.rng = Rng()
    d0 = None
    if kind != 'random':
        d0 = dmod.GaussianQuadrature(kind == 'gq_sym') if kind.startswith('gq') else dmod.create_distribution(kind)
        d0.generate_points(n)
    d.generate_points(n, vx, vy)
    xs, ys = ctx.vals(d.x), ctx.vals(d.y)
    want = expected_count(kind, n)
    ctx.oblige('count', (want[0] <= len(xs) <= want[1] if isinstance(want, tuple) else len(xs) == want) and len(ys) == len(xs))
    if xs:
        ctx.observe('x_last', xs[-1])
    for i, (x, y) in enumerate(zip(xs, ys)):
        ctx.oblige(f'inside_unit_pupil_{i}', ctx.le(x * x + y * y, 1.0 + 1e-9))
        if d0 is not None:
            x0, y0 = float(np.ravel(d0.x)[i]), float(np.ravel(d0.y)[i])
            ctx.oblige(f'shrunk_x_{i}', ctx.eq(x, x0 * (1 - vx)))
            ctx.oblige(f'shrunk_y_{i}', ctx.eq(y, y0 * (1 - vy)))


@harness('C03', 'H5_vig_factor', funcs=FUNCS, cases=lambda tier: [dict(nf=2), dict(nf=3)],
         bounds='2 or 3 fields along y with symbolic heights and vignetting factors; symbolic (Hx, Hy) in the unit disk',
         doc='get_vig_factor interpolates linearly in |H| between the per-field factors (clamped at the ends), so it stays within '
             'the range of the given factors')
def h5_vig(ctx, nf):
    from optiland.fields import Field, FieldGroup
    fg = FieldGroup()
    ys = [ctx.const(0.0)]
    vxs = [ctx.real('vx0', lo=0.0, hi=1.0)]
    vys = [ctx.real('vy0', lo=0.0, hi=1.0)]
    for i in range(1, nf):
        ys.append(ys[-1] + ctx.real(f'dy{i}', lo=0.1, hi=20.0))
        vxs.append(ctx.real(f'vx{i}', lo=0.0, hi=1.0))
        vys.append(ctx.real(f'vy{i}', lo=0.0, hi=1.0))
    for y, a, b in zip(ys, vxs, vys):
        fg.add_field(Field('angle', 0.0, y, a, b))
    Hx, Hy = ctx.real('Hx', lo=-1.0, hi=1.0), ctx.real('Hy', lo=-1.0, hi=1.0)
    ctx.assume(Hx * Hx + Hy * Hy <= 1)
    vx, vy = fg.get_vig_factor(Hx, Hy)
    h = ctx.sqrt(Hx * Hx + Hy * Hy)
    hs = [y / ys[-1] for y in ys]
    for nm, got, tab in (('vx', vx, vxs), ('vy', vy, vys)):
        got = ctx.val(got)
        want = None
        for i in range(nf - 1):
            if bool(h >= hs[i]) and bool(h <= hs[i + 1]):
                want = tab[i] + (tab[i + 1] - tab[i]) * (h - hs[i]) / (hs[i + 1] - hs[i])
                break
        ctx.oblige(f'{nm}_linear_interpolation', ctx.eq(got, want) if want is not None else False)
        ctx.oblige(f'{nm}_in_unit_interval', ctx.And(ctx.le(0.0, got), ctx.le(got, 1.0)))
    ctx.observe('vx', vx)


@harness('C03', 'H6_curved_object', funcs=FUNCS, cases=lambda tier: [dict(ft='object_height', tele=False), dict(ft='object_height', tele=True), dict(ft='angle', tele=False)],
         bounds='finite object on a SPHERICAL object surface (symbolic radius R0, |y| < |R0|), one spherical lens surface (stop), EPD aperture '
                '(object NA when telecentric); symbolic Hy, Px, Py',
         doc='height fields: the ray starts ON the object surface at height Hy x maximum field (z = vertex + sag of the object there); angular '
             'fields start in the vertex plane of the object; in both cases the ray aims at the pupil point')
def h6_curved_object(ctx, ft, tele):
    from optiland.optic import Optic
    from checks.common import ideal
    t0 = ctx.real('t0', lo=1.0, hi=500.0)
    R0 = ctx.real('R0', ne=0)
    o = Optic()
    o.add_surface(index=0, radius=R0, thickness=t0)
    o.add_surface(index=1, radius=ctx.real('R1', ne=0), thickness=ctx.real('t1', lo=0.1, hi=100.0), material=ideal(ctx.real('n1', lo=1.0, hi=4.0)), is_stop=True)
    o.add_surface(index=2)
    apv = ctx.real('apv', lo=0.05, hi=(0.5 if tele else 20.0))
    o.set_aperture('objectNA' if tele else 'EPD', apv)
    o.set_field_type(ft)
    fy = ctx.real('fy', lo=0.1, hi=30.0)
    o.add_field(y=0.0)
    o.add_field(y=fy)
    o.add_wavelength(0.55, is_primary=True)
    if tele:
        o.obj_space_telecentric = True
    Hy = ctx.real('Hy', lo=-1.0, hi=1.0)
    Px, Py = ctx.real('Px', lo=-1.0, hi=1.0), ctx.real('Py', lo=-1.0, hi=1.0)
    if ft == 'object_height':
        ctx.assume((Hy * fy) * (Hy * fy) < R0 * R0)          # the field point exists on the spherical object
    rays = o.ray_generator.generate_rays(0.0, Hy, ctx.arr(Px), ctx.arr(Py), 0.55)
    x0, y0, z0 = ctx.val(rays.x), ctx.val(rays.y), ctx.val(rays.z)
    d = (ctx.val(rays.L), ctx.val(rays.M), ctx.val(rays.N))
    if not all(ctx.finite(v) for v in (x0, y0, z0) + d):
        return
    ctx.oblige('origin_x', ctx.eq(x0, 0.0))
    if ft == 'object_height':
        yy = Hy * fy
        ctx.oblige('origin_y', ctx.eq(y0, yy))
        sag = yy * yy / (R0 * (1 + ctx.sqrt(1 - yy * yy / (R0 * R0))))
        ctx.oblige('origin_on_the_object_surface', ctx.eq(z0, -t0 + sag))
        # equivalently: the start point lies on the sphere of radius R0 through the object vertex
        ctx.oblige('origin_on_the_object_sphere', ctx.eq(y0 * y0 + (z0 + t0 - R0) * (z0 + t0 - R0), R0 * R0))
    else:
        ctx.oblige('origin_z_vertex_plane', ctx.eq(z0, -t0))
    if not tele:
        # stop at the first surface: entrance pupil in its vertex plane, diameter = EPD
        aim = (Px * apv / 2, Py * apv / 2, 0.0)
        v = (aim[0] - x0, aim[1] - y0, aim[2] - z0)
        cr = (v[1] * d[2] - v[2] * d[1], v[2] * d[0] - v[0] * d[2], v[0] * d[1] - v[1] * d[0])
        for i, a in enumerate('xyz'):
            ctx.oblige(f'aims_at_pupil_point_{a}', ctx.eq(cr[i], 0.0))
    ctx.oblige('unit', ctx.eq(d[0] * d[0] + d[1] * d[1] + d[2] * d[2], 1.0))
    ctx.observe('z0', z0)


@harness('C03', 'H7_negative_fields', funcs=FUNCS, cases=lambda tier: [dict(obj='finite'), dict(obj='inf')],
         bounds='field list 0, f1, -f2 with 0 < f1 < f2 symbolic (the field of largest magnitude is NEGATIVE); one spherical surface (stop), EPD; '
                'finite object with height fields / infinite object with angular fields; symbolic Hy',
         doc='the maximum field that normalises Hy is the largest field MAGNITUDE: the chief ray requested at Hy starts at height Hy x f2 '
             '(finite object) resp. travels at the angle Hy x f2 (infinite object)')
def h7_negative_fields(ctx, obj):
    from optiland.optic import Optic
    from checks.common import ideal
    o = Optic()
    t0 = ctx.real('t0', lo=1.0, hi=500.0) if obj == 'finite' else np.inf
    o.add_surface(index=0, thickness=t0)
    o.add_surface(index=1, radius=ctx.real('R1', ne=0), thickness=ctx.real('t1', lo=0.1, hi=100.0), material=ideal(ctx.real('n1', lo=1.0, hi=4.0)), is_stop=True)
    o.add_surface(index=2)
    o.set_aperture('EPD', ctx.real('epd', lo=0.05, hi=20.0))
    o.set_field_type('object_height' if obj == 'finite' else 'angle')
    f1 = ctx.real('f1', lo=0.1, hi=30.0)
    f2 = ctx.real('f2', lo=0.1, hi=30.0)
    ctx.assume(f1 < f2)
    o.add_field(y=0.0)
    o.add_field(y=f1)
    o.add_field(y=-f2)
    o.add_wavelength(0.55, is_primary=True)
    Hy = ctx.real('Hy', lo=-1.0, hi=1.0)
    ctx.oblige('max_field_is_largest_magnitude', ctx.eq(o.fields.max_field, f2))
    rays = o.ray_generator.generate_rays(0.0, Hy, ctx.arr(0.0), ctx.arr(0.0), 0.55)
    y0, z0 = ctx.val(rays.y), ctx.val(rays.z)
    M, N = ctx.val(rays.M), ctx.val(rays.N)
    if not all(ctx.finite(v) for v in (y0, z0, M, N)):
        return
    if obj == 'finite':
        ctx.oblige('origin_y', ctx.eq(y0, Hy * f2))
    else:
        ctx.oblige('field_angle', ctx.eq(M, ctx.tan(Hy * f2 * (math.pi / 180.0)) * N))
    ctx.observe('y0', y0)
