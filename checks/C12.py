"""C12 - geometric analyses are faithful functions of the traced rays (DESIGN §6 C12).

The tracer is an uninterpreted function of (Hx, Hy, Px, Py, wavelength) per surface and quantity (checks/uftrace.py): every analysis
must be the documented formula applied to the tracer's values at the documented samples, for ALL tracers."""
import math

import numpy as np

from symopt.harness import harness
from checks.common import ideal
from checks.uftrace import install_uf_tracer

FUNCS = ['optiland.analysis.spot_diagram.SpotDiagram', 'optiland.analysis.encircled_energy.EncircledEnergy',
         'optiland.analysis.ray_fan.RayFan', 'optiland.analysis.distortion.Distortion',
         'optiland.analysis.grid_distortion.GridDistortion', 'optiland.analysis.field_curvature.FieldCurvature',
         'optiland.analysis.rms_vs_field.RmsSpotSizeVsField', 'optiland.analysis.pupil_aberration.PupilAberration',
         'optiland.optimization.operand.ray.RayOperand']
STUBS = ['Optic.trace / trace_generic -> uninterpreted functions of (Hx,Hy,Px,Py,wavelength) per surface and quantity '
         '(same arguments -> same ray); intensity = square of an uninterpreted function where non-negativity matters']
LAST = 3


def slab(ctx, ft='angle', nw=2, primary=1, nf=2, curved=False):
    """plane-surface lens: supplies fields, wavelengths (primary = second), stop index and the paraxial rays; tracer uninterpreted"""
    from optiland.optic import Optic
    o = Optic()
    t0 = np.inf if ft == 'angle' else ctx.real('t0', lo=1.0, hi=100.0)
    o.add_surface(index=0, thickness=t0)
    kw = dict(radius=ctx.real('R1', lo=5.0, hi=500.0)) if curved else {}       # (power in front of the stop: stop radius != EPD / 2)
    o.add_surface(index=1, thickness=ctx.real('t1', lo=0.1, hi=20.0), material=ideal(ctx.real('n1', lo=1.0, hi=2.0)), **kw)
    o.add_surface(index=2, thickness=ctx.real('t2', lo=0.1, hi=50.0), is_stop=True)
    o.add_surface(index=3)
    o.set_aperture('EPD', ctx.real('epd', lo=0.1, hi=10.0))
    o.set_field_type(ft)
    fy = ctx.real('fy', lo=0.1, hi=20.0)
    if nf == 2:
        o.add_field(y=0.0)
    o.add_field(y=fy)
    ws = [ctx.real('w1', lo=0.4, hi=0.5), ctx.real('w2', lo=0.55, hi=0.7)][:nw]
    for i, w in enumerate(ws):
        o.add_wavelength(w, is_primary=(i == min(primary, nw - 1)))
    return o, dict(fy=fy, ws=ws)


class Points:
    """caller-supplied distribution"""

    def __init__(self, ctx, pts):
        self.x = ctx.arr(*[p[0] for p in pts])
        self.y = ctx.arr(*[p[1] for p in pts])


def named_points(ctx, name, n):
    from optiland.distribution import create_distribution
    d = create_distribution(name)
    d.generate_points(n)
    return list(zip(ctx.vals(d.x), ctx.vals(d.y)))


def mean(xs):
    return sum(xs[1:], xs[0]) / len(xs)


def library_fields(ctx, an_fields, want):
    """the analysis object's own (normalised) field list must equal the expected one; the library's values are returned and used as
    tracer arguments in the oracle (fy / fy is 1 only after a solver step, which would sit inside every uninterpreted application)"""
    got = [tuple(ctx.val(c) for c in f) for f in an_fields]
    ctx.oblige('fields_analysed', len(got) == len(want) and ctx.And(*[ctx.And(ctx.eq(g[0], w[0]), ctx.eq(g[1], w[1])) for g, w in zip(got, want)]))
    return got if len(got) == len(want) else want


def same_call(ctx, call, H, pts, w):
    """the recorded tracer call has exactly these samples"""
    hx, hy, px, py, cw = call[:5]
    if len(px) != len(pts):
        return False
    return ctx.And(ctx.eq(cw, w), *[ctx.And(ctx.eq(hx[i], H[0]), ctx.eq(hy[i], H[1]), ctx.eq(px[i], p[0]), ctx.eq(py[i], p[1]))
                                    for i, p in enumerate(pts)])


# ------------------------------------------------------------------------------------------------ spot diagram
def cases_spot(tier):
    return [dict(sel='all'), dict(sel='fields'), dict(sel='primary_only'), dict(sel='reversed'), dict(sel='vs_field'), dict(sel='no_primary')]


@harness('C12', 'H1_spot', cases=cases_spot, funcs=FUNCS, stubs=STUBS,
         bounds='lens with 2 fields and 2 wavelengths (the second primary); all/all with a 3-ray line_y fan (thorough: hexapolar 1 ring, 7 rays); explicit field list; explicit '
                'wavelength lists [primary] and [primary, other] with a caller-supplied 2-point distribution; RmsSpotSizeVsField with 2 fields',
         doc='SpotDiagram.data = traced image-surface x, y, intensity at the requested fields x wavelengths x distribution; centroid = mean over the '
             'rays of the PRIMARY wavelength among those analysed; rms / geometric radius = root mean / maximum of the squared distance from that '
             'centroid; queries leave the data untouched')
def h1_spot(ctx, sel):
    from optiland.analysis.spot_diagram import SpotDiagram
    o, nums = slab(ctx)
    w1, w2 = nums['ws']
    calls = []
    val = install_uf_tracer(ctx, o, calls=calls)
    if sel == 'all':
        dname, nr = ('hexapolar', 1) if ctx.tier == 'thorough' else ('line_y', 3)
        pts = named_points(ctx, dname, nr)
        sd = SpotDiagram(o, num_rings=nr, distribution=dname)
        fields, waves = [(0.0, 0.0), (0.0, 1.0)], [w1, w2]
    elif sel == 'vs_field':
        from optiland.analysis.rms_vs_field import RmsSpotSizeVsField
        pts = named_points(ctx, 'line_y', 2)
        sd = RmsSpotSizeVsField(o, num_fields=2, wavelengths=[w2], num_rings=2, distribution='line_y')
        fields, waves = [(0.0, 0.0), (0.0, 1.0)], [w2]
    else:
        pts = [(ctx.real('px0', lo=-1.0, hi=1.0), ctx.real('py0', lo=-1.0, hi=1.0)), (ctx.real('px1', lo=-1.0, hi=1.0), ctx.real('py1', lo=-1.0, hi=1.0))]
        fields = [(0.0, 0.5)] if sel == 'fields' else [(0.0, 0.0), (0.0, 1.0)]
        waves = {'fields': [w1, w2], 'primary_only': [w2], 'reversed': [w2, w1], 'no_primary': [w1]}[sel]
        sd = SpotDiagram(o, fields=fields if sel == 'fields' else 'all', wavelengths='all' if sel == 'fields' else waves,
                         num_rings=2, distribution=Points(ctx, pts))
    fields = library_fields(ctx, sd.fields, fields)
    ctx.oblige('one_trace_per_field_and_wavelength', len(calls) == len(fields) * len(waves))
    k = 0
    for H in fields:
        for w in waves:
            if k < len(calls):
                ctx.oblige(f'samples_{k}', same_call(ctx, calls[k], H, pts, w))
            k += 1
    X = [[[val('x', LAST, H[0], H[1], p[0], p[1], w) for p in pts] for w in waves] for H in fields]
    Y = [[[val('y', LAST, H[0], H[1], p[0], p[1], w) for p in pts] for w in waves] for H in fields]
    I = [[[val('intensity', LAST, H[0], H[1], p[0], p[1], w) for p in pts] for w in waves] for H in fields]

    def data_ok(tag):
        ctx.oblige(f'{tag}:shape', len(sd.data) == len(fields) and all(len(fd) == len(waves) for fd in sd.data))
        for i in range(len(fields)):
            for j in range(len(waves)):
                got = [ctx.vals(a) for a in sd.data[i][j]]
                ctx.oblige(f'{tag}:data_{i}{j}', ctx.And(*[ctx.eq(g, v) for gs, vs in zip(got, (X[i][j], Y[i][j], I[i][j])) for g, v in zip(gs, vs)]))
    data_ok('fresh')
    jp = waves.index(w2) if sel != 'no_primary' else 0         # the primary wavelength among the analysed ones (else: the first)
    cen = sd.centroid()
    rms = sd.rms_spot_radius()
    geo = sd.geometric_spot_radius() if sel not in ('all',) else None
    if sel == 'vs_field':
        ctx.oblige('spot_size_table', ctx.And(*[ctx.eq(ctx.val(sd._spot_size[i, 0]), ctx.val(rms[i][0])) for i in range(2)]))
    for i in range(len(fields)):
        cx, cy = mean(X[i][jp]), mean(Y[i][jp])
        ctx.oblige(f'centroid_{i}', ctx.And(ctx.eq(ctx.val(cen[i][0]), cx), ctx.eq(ctx.val(cen[i][1]), cy)))
        for j in range(len(waves)):
            r2 = [(x - cx) * (x - cx) + (y - cy) * (y - cy) for x, y in zip(X[i][j], Y[i][j])]
            r = ctx.val(rms[i][j])
            ctx.oblige(f'rms_{i}{j}', ctx.And(r >= 0, ctx.eq(r * r, mean(r2))))
            if geo is not None:
                g = ctx.val(geo[i][j])
                rr = [ctx.sqrt(q) for q in r2]
                ctx.oblige(f'geometric_{i}{j}', ctx.And(*[ctx.le(q, g) for q in rr], ctx.Or(*[ctx.eq(g, q) for q in rr])))
    data_ok('after_queries')
    ctx.observe('w2', w2)


# ------------------------------------------------------------------------------------------------ encircled energy
class _FakeAx:
    def __init__(self):
        self.plots = []

    def plot(self, *a, **k):
        self.plots.append((a, k))

    def __getattr__(self, name):
        return lambda *a, **k: None


class _FakePlt:
    def __init__(self, nrows_cols=False):
        self.ax = _FakeAx()
        self.axes = []

    def subplots(self, *a, **k):
        return _FakeAx(), self.ax

    def __getattr__(self, name):
        return lambda *a, **k: None


@harness('C12', 'H2_encircled_energy', funcs=FUNCS, stubs=STUBS + ['matplotlib.pyplot replaced by a recorder (the curve is only produced by view())'],
         cases=lambda tier: [dict(nf=1)] + ([dict(nf=2)] if tier == 'thorough' else []), max_paths=600,
         bounds='1 field (thorough: 2), primary wavelength (second of two), 3 rays per field landing on a line through their centroid at symbolic '
                'distances (x = d0, d1, -(d0+d1); y = 0) with symbolic non-negative intensities, 3 radii',
         doc='the encircled-energy curve drawn by view() is, at each radius, the summed intensity of the rays of the primary wavelength within that '
             'distance of their centroid; it is non-decreasing and its last value is the total transmitted energy')
def h2_encircled(ctx, nf):
    from optiland.analysis import encircled_energy as em
    o, nums = slab(ctx)
    w2 = nums['ws'][1]
    calls = []
    install_uf_tracer(ctx, o, calls=calls)
    stub_trace = o.trace
    fields = [(0.0, 1.0)] if nf == 1 else [(0.0, 0.0), (0.0, 1.0)]
    spots = []
    for i in range(nf):
        d0, d1 = ctx.real(f'd0_{i}', lo=-10.0, hi=10.0), ctx.real(f'd1_{i}', lo=-10.0, hi=10.0)
        es = [ctx.real(f'e{k}_{i}', lo=0.0, hi=1.0) for k in range(3)]
        spots.append(([d0, d1, -(d0 + d1)], es))
    made = []

    def trace(Hx, Hy, wavelength, num_rays=100, distribution='hexapolar'):
        r = stub_trace(Hx, Hy, wavelength, num_rays, distribution)
        xs, es = spots[len(made) % nf]
        made.append((Hx, Hy, wavelength))
        last = o.surface_group.surfaces[-1]
        last.x, last.y, last.intensity = ctx.arr(*xs), ctx.arr(0.0, 0.0, 0.0), ctx.arr(*es)
        return r
    o.trace = trace
    pts = [(0.0, 0.0), (0.5, 0.0), (0.0, 0.5)]
    ee = em.EncircledEnergy(o, fields=fields if nf == 1 else 'all', num_rays=3, distribution=Points(ctx, pts), num_points=3)
    fields = library_fields(ctx, ee.fields, fields)
    ctx.oblige('traces', len(calls) == nf)
    for c, H in zip(calls, fields):
        ctx.oblige('samples', same_call(ctx, c, H, pts, w2))
    fake = _FakePlt()
    orig = em.plt
    em.plt = fake
    try:
        ee.view()
    finally:
        em.plt = orig
    plots = fake.ax.plots
    ctx.oblige('one_curve_per_field', len(plots) == nf)
    allr = [ctx.abs(x) for xs, _ in spots for x in xs]          # distances from the centroid (which is the origin by construction)
    for (a, k), (xs, es) in zip(plots, spots):
        rs, curve = ctx.vals(a[0]), ctx.vals(a[1])
        ctx.oblige('three_radii', len(rs) == 3 and len(curve) == 3)
        if len(rs) != 3:
            return
        ctx.oblige('axis_from_zero', ctx.eq(rs[0], 0.0))
        ctx.oblige('axis_reaches_beyond_every_ray', ctx.And(*[ctx.le(q, rs[2]) for q in allr]))
        ctx.oblige('axis_increasing', ctx.And(ctx.le(rs[0], rs[1]), ctx.le(rs[1], rs[2])))
        for m in range(3):
            want = sum((ctx.If(ctx.abs(x) <= rs[m], e, 0.0) for x, e in zip(xs, es)), ctx.const(0.0))
            ctx.oblige(f'energy_within_radius_{m}', ctx.eq(curve[m], want))
        ctx.oblige('non_decreasing', ctx.And(ctx.le(curve[0], curve[1]), ctx.le(curve[1], curve[2])))
        ctx.oblige('reaches_total', ctx.eq(curve[2], es[0] + es[1] + es[2]))
    ctx.observe('w2', w2)


# ------------------------------------------------------------------------------------------------ ray fan
@harness('C12', 'H3_ray_fan', funcs=FUNCS, stubs=STUBS,
         cases=lambda tier: [dict(sel='all'), dict(sel='explicit'), dict(sel='no_primary')],
         bounds='2 fields x 2 wavelengths, 3 points per fan (num_points=2 is made odd); explicit lists: one field (0, 0.5), wavelengths '
                '[primary, other]; no_primary: wavelength list without the lens primary wavelength',
         doc='ray fan x(Px) / y(Py) = traced image-surface coordinate on the line_x / line_y fan minus the coordinate of the chief ray (P = 0) of the '
             'primary wavelength at the same field; intensities are the traced ones')
def h3_ray_fan(ctx, sel):
    from optiland.analysis.ray_fan import RayFan
    o, nums = slab(ctx)
    w1, w2 = nums['ws']
    calls = []
    val = install_uf_tracer(ctx, o, calls=calls)
    if sel == 'all':
        fields, waves = [(0.0, 0.0), (0.0, 1.0)], [w1, w2]
        rf = RayFan(o, num_points=2)
    elif sel == 'explicit':
        fields, waves = [(0.0, 0.5)], [w2, w1]
        rf = RayFan(o, fields=fields, wavelengths=waves, num_points=3)
    else:
        fields, waves = [(0.0, 1.0)], [w1]
        rf = RayFan(o, fields=fields, wavelengths=waves, num_points=3)
    fields = library_fields(ctx, rf.fields, fields)
    P = [-1.0, 0.0, 1.0]
    ctx.oblige('pupil_axes', ctx.And(*[ctx.eq(a, b) for a, b in zip(ctx.vals(rf.data['Px']) + ctx.vals(rf.data['Py']), P + P)]))
    for Hk, H in zip(rf.fields, fields):
        x_ref = val('x', LAST, H[0], H[1], 0.0, 0.0, w2)
        y_ref = val('y', LAST, H[0], H[1], 0.0, 0.0, w2)
        for wk, w in zip(rf.wavelengths, waves):
            d = rf.data[f'{Hk}'][f'{wk}']
            tag = f'{H[1]}_{waves.index(w)}'
            ctx.oblige(f'x_{tag}', ctx.And(*[ctx.eq(g, val('x', LAST, H[0], H[1], p, 0.0, w) - x_ref) for g, p in zip(ctx.vals(d['x']), P)]))
            ctx.oblige(f'y_{tag}', ctx.And(*[ctx.eq(g, val('y', LAST, H[0], H[1], 0.0, p, w) - y_ref) for g, p in zip(ctx.vals(d['y']), P)]))
            ctx.oblige(f'ix_{tag}', ctx.And(*[ctx.eq(g, val('intensity', LAST, H[0], H[1], p, 0.0, w)) for g, p in zip(ctx.vals(d['intensity_x']), P)]))
            ctx.oblige(f'iy_{tag}', ctx.And(*[ctx.eq(g, val('intensity', LAST, H[0], H[1], 0.0, p, w)) for g, p in zip(ctx.vals(d['intensity_y']), P)]))
    ctx.observe('w2', w2)


# ------------------------------------------------------------------------------------------------ distortion
def cases_distortion(tier):
    return [dict(ft='angle', kind='f-tan', waves='all'), dict(ft='angle', kind='f-theta', waves='one'),
            dict(ft='object_height', kind='f-tan', waves='one'), dict(ft='object_height', kind='f-theta', waves='one'),
            dict(ft='angle', kind='bad', waves='one')]


def reference_height(ctx, ft, kind, y_small, H, fmax, exact_small=False):
    """image height of an undistorted lens at normalised field H, scaled from the chief ray at the small field 1e-10: proportional to
    tan(field angle) (f-tan) or to the field angle (f-theta) for angular fields, to the object height for height fields"""
    c = math.pi / 180.0
    if ft == 'angle':
        if kind == 'f-tan':
            return y_small / ctx.tan(1e-10 * (fmax * c)) * ctx.tan(H * (fmax * c))
        if exact_small:
            return y_small / (1e-10 * (fmax * c)) * H * (fmax * c)
        return y_small / ctx.tan(1e-10 * (fmax * c)) * H * (fmax * c)     # (tan x = x (1 + 1e-21) at the reference field)
    return y_small / 1e-10 * H if exact_small else y_small * (H / 1e-10)


@harness('C12', 'H4_distortion', cases=cases_distortion, funcs=FUNCS, stubs=STUBS,
         bounds='Distortion with 2 field points (1e-10 and 1) and 2 wavelengths (all) or one explicit non-primary wavelength; angular and '
                'object-height fields; both distortion types; unknown type',
         doc='distortion = 100 (y_chief - y_ref) / y_ref with y_chief the traced chief-ray height on the image surface and y_ref the height an '
             'undistorted lens would give, scaled from the chief ray of the smallest field (1e-10): ~ tan(angle) / angle for angular fields and '
             '~ object height for height fields; an unknown type is rejected')
def h4_distortion(ctx, ft, kind, waves):
    from optiland.analysis.distortion import Distortion
    o, nums = slab(ctx, ft)
    calls = []
    val = install_uf_tracer(ctx, o, calls=calls)
    if kind == 'bad':
        ctx.raises(ValueError, Distortion, o, num_points=2, distortion_type='f-sin')
        return
    ws = nums['ws'] if waves == 'all' else [nums['ws'][0]]
    Hs = [1e-10, 1.0]
    for w in ws:
        ctx.assume(ctx.Not(ctx.eq(val('y', LAST, 0.0, Hs[0], 0.0, 0.0, w), 0.0)))      # the reference chief ray is off axis
    an = Distortion(o, wavelengths='all' if waves == 'all' else ws, num_points=2, distortion_type=kind)
    ctx.oblige('one_curve_per_wavelength', len(an.data) == len(ws) and len(calls) == len(ws))
    for j, w in enumerate(ws):
        got = ctx.vals(an.data[j])
        ctx.oblige(f'points_{j}', len(got) == 2)
        ctx.oblige(f'chief_rays_{j}', ctx.And(ctx.eq(calls[j][4], w), *[ctx.And(ctx.eq(calls[j][0][m], 0.0), ctx.eq(calls[j][1][m], Hs[m]),
                                                                              ctx.eq(calls[j][2][m], 0.0), ctx.eq(calls[j][3][m], 0.0)) for m in (0, 1)]))
        y0 = val('y', LAST, 0.0, Hs[0], 0.0, 0.0, w)
        for m in (0, 1):
            yr = val('y', LAST, 0.0, Hs[m], 0.0, 0.0, w)
            yp = reference_height(ctx, ft, kind, y0, Hs[m], nums['fy'])
            if ctx.finite(got[m]):
                ctx.oblige(f'distortion_{j}{m}', ctx.eq(got[m] * yp, 100 * (yr - yp)))
    ctx.observe('fy', nums['fy'])


@harness('C12', 'H4_grid_distortion', funcs=FUNCS, stubs=STUBS,
         cases=lambda tier: [dict(ft='angle', kind='f-tan'), dict(ft='object_height', kind='f-tan'), dict(ft='angle', kind='bad')] + ([dict(ft='angle', kind='f-theta'), dict(ft='object_height', kind='f-theta')] if tier == 'thorough' else []),
         bounds='GridDistortion with a 2 x 2 grid (corners (+-sqrt(2)/2, +-sqrt(2)/2)), primary wavelength',
         doc='real grid = traced chief-ray x, y on the image surface at the grid fields; ideal grid = reference heights scaled from the smallest '
             'field chief ray; maximum distortion = max of 100 |real - ideal| / |ideal|')
def h4_grid(ctx, ft, kind):
    from optiland.analysis.grid_distortion import GridDistortion
    o, nums = slab(ctx, ft)
    w2 = nums['ws'][1]
    calls = []
    val = install_uf_tracer(ctx, o, calls=calls)
    if kind == 'bad':
        ctx.raises(ValueError, GridDistortion, o, num_points=2, distortion_type='f-sin')
        return
    y0 = val('y', LAST, 0.0, 1e-10, 0.0, 0.0, w2)
    ctx.assume(ctx.Not(ctx.eq(y0, 0.0)))      # the reference chief ray is off axis
    an = GridDistortion(o, num_points=2, distortion_type=kind)
    d = an.data
    e = math.sqrt(2) / 2
    worst = []
    ok = True
    for r, hy in enumerate((-e, e)):
        for c, hx in enumerate((-e, e)):
            xr, yr = val('x', LAST, hx, hy, 0.0, 0.0, w2), val('y', LAST, hx, hy, 0.0, 0.0, w2)
            ctx.oblige(f'real_{r}{c}', ctx.And(ctx.eq(ctx.val(d['xr'][r, c]), xr), ctx.eq(ctx.val(d['yr'][r, c]), yr)))
            # the image is inverted in x relative to the field sign convention of the tracer (the library flips the ideal x grid)
            xp = reference_height(ctx, ft, kind, y0, -hx, nums['fy'], exact_small=True)
            yp = reference_height(ctx, ft, kind, y0, hy, nums['fy'], exact_small=True)
            ctx.oblige(f'ideal_{r}{c}', ctx.And(ctx.eq(ctx.val(d['xp'][r, c]), xp), ctx.eq(ctx.val(d['yp'][r, c]), yp)))
            gxp, gyp = ctx.val(d['xp'][r, c]), ctx.val(d['yp'][r, c])
            worst.append(100 * ctx.sqrt((gxp - xr) * (gxp - xr) + (gyp - yr) * (gyp - yr)) / ctx.sqrt(gxp * gxp + gyp * gyp))
    m = ctx.val(d['max_distortion'])
    if ctx.finite(m):
        ctx.oblige('max_distortion', ctx.And(*[ctx.le(v, m) for v in worst], ctx.Or(*[ctx.eq(m, v) for v in worst])))
    ctx.observe('fy', nums['fy'])


# ------------------------------------------------------------------------------------------------ field curvature
@harness('C12', 'H5_field_curvature', funcs=FUNCS, stubs=STUBS, cases=lambda tier: [dict(n=2, waves='one'), dict(n=1, waves='all')],
         bounds='FieldCurvature with 2 field points and one explicit wavelength, or 1 field point and all (2) wavelengths; arbitrary traced records (also a curved image surface: z differs per ray)',
         doc='tangential / sagittal focus shift = z offset, from the image-surface point of the first parabasal ray, of the point where the two '
             'parabasal rays (pupil -+1e-5 in y resp. x) cross in the meridional / sagittal projection')
def h5_field_curvature(ctx, n, waves):
    from optiland.analysis.field_curvature import FieldCurvature
    o, nums = slab(ctx)
    val = install_uf_tracer(ctx, o)
    ws = nums['ws'] if waves == 'all' else [nums['ws'][0]]
    dl = 1e-5
    for w in ws:
        for H in (0.0, 1.0)[:n]:
            for dq, P1, P2 in (('M', (0.0, -dl), (0.0, dl)), ('L', (-dl, 0.0), (dl, 0.0))):
                s1, n1 = (val(k, LAST, 0.0, H, P1[0], P1[1], w) for k in (dq, 'N'))
                s2, n2 = (val(k, LAST, 0.0, H, P2[0], P2[1], w) for k in (dq, 'N'))
                ctx.assume(ctx.Not(ctx.eq(s1 * n2, s2 * n1)))        # the two parabasal rays are not parallel (else no focus exists)
    an = FieldCurvature(o, wavelengths='all' if waves == 'all' else ws, num_points=n)
    ctx.oblige('one_pair_per_wavelength', len(an.data) == len(ws))
    for j, w in enumerate(ws):
        tan, sag = an.data[j]
        for i, H in enumerate((0.0, 1.0)[:n]):
            for nm, got, q, dq, P1, P2 in (('tangential', ctx.val(tan[i]), 'y', 'M', (0.0, -dl), (0.0, dl)),
                                           ('sagittal', ctx.val(sag[i]), 'x', 'L', (-dl, 0.0), (dl, 0.0))):
                if not ctx.finite(got):
                    continue
                a1, z1, s1, n1 = (val(k, LAST, 0.0, H, P1[0], P1[1], w) for k in (q, 'z', dq, 'N'))
                a2, z2, s2, n2 = (val(k, LAST, 0.0, H, P2[0], P2[1], w) for k in (q, 'z', dq, 'N'))
                # both projected lines pass through (a, z) = (a1 + got s1/n1, z1 + got): a1 + got s1/n1 = a2 + (z1 + got - z2) s2/n2
                ctx.oblige(f'{nm}_{j}{i}', ctx.eq((a1 * n1 + got * s1) * n2, (a2 * n2 + (z1 + got - z2) * s2) * n1))
    ctx.observe('fy', nums['fy'])


# ------------------------------------------------------------------------------------------------ pupil aberration
@harness('C12', 'H6_pupil_aberration', funcs=FUNCS, stubs=STUBS, cases=lambda tier: [dict(sel='all'), dict(sel='explicit'), dict(sel='blocked')],
         bounds='all: 3 pupil points, 2 fields x 2 wavelengths, strictly positive intensities; explicit: field (0, 0.5), wavelength [w1]; '
                'blocked: 1 pupil point, arbitrary intensities (zero allowed); real paraxial trace of a lens with a curved surface in front of the stop',
         doc='pupil aberration = 100 (paraxial - real) stop coordinate / paraxial stop semi-diameter on the line_x / line_y fans, NaN exactly where '
             'the traced intensity is zero')
def h6_pupil_aberration(ctx, sel):
    from optiland.analysis.pupil_aberration import PupilAberration
    o, nums = slab(ctx, curved=True)
    w1, w2 = nums['ws']
    ya, _ = o.paraxial.marginal_ray()
    stop = o.surface_group.stop_index
    d = ctx.val(ya[stop])
    ctx.assume(ctx.Not(ctx.eq(d, 0.0)))          # (the stop does not sit in an image of the axial object point)
    val = install_uf_tracer(ctx, o, positive_intensity=('strict' if sel != 'blocked' else False))
    if sel == 'all':
        fields, waves = [(0.0, 0.0), (0.0, 1.0)], [w1, w2]
        an = PupilAberration(o, num_points=2)
        P = [-1.0, 0.0, 1.0]
    elif sel == 'explicit':
        fields, waves = [(0.0, 0.5)], [w1]
        an = PupilAberration(o, fields=fields, wavelengths=waves, num_points=3)
        P = [-1.0, 0.0, 1.0]
    else:
        fields, waves = [(0.0, 1.0)], [w2]
        an = PupilAberration(o, fields=fields, wavelengths=waves, num_points=1)
        P = [-1.0]
    fields = library_fields(ctx, an.fields, fields)
    ctx.oblige('pupil_axes', ctx.And(*[ctx.eq(a, b) for a, b in zip(ctx.vals(an.data['Px']) + ctx.vals(an.data['Py']), P + P)]))
    for Hk, H in zip(an.fields, fields):
        for wk, w in zip(an.wavelengths, waves):
            dd = an.data[f'{Hk}'][f'{wk}']
            for nm, q in (('x', 'x'), ('y', 'y')):
                got = ctx.vals(dd[nm])
                ctx.oblige(f'{nm}_points', len(got) == len(P))
                for g, p in zip(got, P):
                    pp = (p, 0.0) if nm == 'x' else (0.0, p)
                    inten = val('intensity', stop, H[0], H[1], pp[0], pp[1], w)
                    real = val(q, stop, H[0], H[1], pp[0], pp[1], w)
                    if ctx.finite(g):
                        ctx.oblige(f'{nm}_{H[1]}_{waves.index(w)}_{p}', ctx.And(ctx.Not(ctx.eq(inten, 0.0)), ctx.eq(g * d, 100 * (p * d - real))))
                    else:
                        ctx.oblige(f'{nm}_{H[1]}_{waves.index(w)}_{p}:nan_only_if_blocked', ctx.eq(inten, 0.0))
    ctx.observe('d', d)


# ------------------------------------------------------------------------------------------------ operands
@harness('C12', 'H7_operands', funcs=FUNCS, stubs=STUBS,
         cases=lambda tier: [dict(op=o_, k=k_) for o_, k_ in (('intercepts', 2), ('intercepts', 3), ('rms_single', 3), ('rms_all', 2))],
         bounds='symbolic field and pupil point, surface 2 or 3; rms_spot_size with a caller-supplied 2-point distribution, one wavelength / all (2, primary second)',
         doc='x/y/z_intercept, L, M, N = the traced record of that ray on that surface; rms_spot_size = root mean squared distance from the centroid '
             '(of the primary wavelength when all wavelengths are requested)')
def h7_operands(ctx, op, k):
    from optiland.optimization.operand.ray import RayOperand
    o, nums = slab(ctx)
    w1, w2 = nums['ws']
    val = install_uf_tracer(ctx, o)
    Hy = ctx.real('Hy', lo=-1.0, hi=1.0)
    if op == 'intercepts':
        px, py = ctx.real('px', lo=-1.0, hi=1.0), ctx.real('py', lo=-1.0, hi=1.0)
        for nm, q in (('x_intercept', 'x'), ('y_intercept', 'y'), ('z_intercept', 'z'), ('L', 'L'), ('M', 'M'), ('N', 'N')):
            got = ctx.val(getattr(RayOperand, nm)(o, k, 0.0, Hy, px, py, w1))
            ctx.oblige(nm, ctx.eq(got, val(q, k, 0.0, Hy, px, py, w1)))
        return
    pts = [(ctx.real('px0', lo=-1.0, hi=1.0), ctx.real('py0', lo=-1.0, hi=1.0)), (ctx.real('px1', lo=-1.0, hi=1.0), ctx.real('py1', lo=-1.0, hi=1.0))]
    dist = Points(ctx, pts)
    if op == 'rms_single':
        got = ctx.val(RayOperand.rms_spot_size(o, k, 0.0, Hy, 2, w1, dist))
        waves = [w1]
    else:
        got = ctx.val(RayOperand.rms_spot_size(o, k, 0.0, Hy, 2, 'all', dist))
        waves = [w1, w2]
    ref = waves[-1]
    cx = mean([val('x', k, 0.0, Hy, p[0], p[1], ref) for p in pts])
    cy = mean([val('y', k, 0.0, Hy, p[0], p[1], ref) for p in pts])
    r2 = [(val('x', k, 0.0, Hy, p[0], p[1], w) - cx) * (val('x', k, 0.0, Hy, p[0], p[1], w) - cx) +
          (val('y', k, 0.0, Hy, p[0], p[1], w) - cy) * (val('y', k, 0.0, Hy, p[0], p[1], w) - cy) for w in waves for p in pts]
    ctx.oblige('rms_spot_size', ctx.And(got >= 0, ctx.eq(got * got, mean(r2))))
    ctx.observe('Hy', Hy)
