"""C05 - real rays converge to the paraxial prediction as aperture and field vanish (DESIGN §6 C05).

The real ray-trace code is executed on truncated power series in the scale factor eps (symopt.jet): the statement
"height/eps and tangent/eps converge to the paraxial values, with a discrepancy shrinking at least quadratically" is the identity
  eps^0 coefficient = 0,  eps^1 coefficient = paraxial value,  eps^2 coefficient = 0
between symbolic coefficients, decided by the solver.  The concrete replay uses eps = 1e-6 (first-order agreement only)."""
import math

import numpy as np

from symopt.harness import harness
from checks.common import ideal
from checks.C04 import Lens

FUNCS = ['optiland.surfaces.standard_surface.Surface._trace_real', 'optiland.geometries.standard.StandardGeometry.distance',
         'optiland.geometries.standard.StandardGeometry.surface_normal', 'optiland.geometries.plane.Plane.distance',
         'optiland.rays.real_rays.RealRays.refract', 'optiland.rays.real_rays.RealRays.reflect',
         'optiland.rays.ray_generator.RayGenerator.generate_rays', 'optiland.optic.Optic.trace_generic',
         'optiland.paraxial.Paraxial.marginal_ray', 'optiland.paraxial.Paraxial.chief_ray', 'optiland.paraxial.Paraxial.F2']

EPS = 1e-7      # concrete replay: checks the zeroth- and first-order coefficients (eps^2 terms are below float resolution)


def sym_setup():
    from symopt import jet
    jet.set_order(3)      # one spare order: a quotient of two series vanishing at eps = 0 loses one order of accuracy


def series(ctx, *coeffs):
    """a0 + a1 eps + a2 eps^2 ... : Jet in sym mode, the number at eps = 1e-3 in the concrete replay"""
    if ctx.sym:
        from symopt.jet import Jet
        return Jet(list(coeffs))
    return float(sum(float(c) * EPS ** i for i, c in enumerate(coeffs)))


def oblige_series(ctx, name, value, want):
    """value = want[0] + want[1] eps + want[2] eps^2 + O(eps^3)"""
    value = ctx.val(value)
    if ctx.sym:
        from symopt.jet import Jet
        v = Jet.of(value)
        if not v.finite():
            ctx.oblige(f'{name}:finite', False)
            return
        if v.p < len(want):
            from symopt.sv import PathEnd
            raise PathEnd('jet', 'series not known to the order of the obligation')
        for k, w in enumerate(want):
            ctx.oblige(f'{name}:eps^{k}', ctx.eq(v.a[k], w))
    else:
        tot = sum(float(w) * EPS ** k for k, w in enumerate(want))
        scale = 1.0 + max(abs(float(w)) for w in want)
        ctx.oblige(f'{name}:series', abs(float(value) - tot) <= 1e-3 * EPS * scale + 1e-13)


def cases_step(tier):
    return [dict(kind=k) for k in ('sphere', 'conic', 'plane', 'mirror', 'conic_mirror')]


@harness('C05', 'H1_step', cases=cases_step, funcs=FUNCS,
         bounds='one surface (sphere, conic with symbolic k, plane; refracting with symbolic n, n\' or reflecting), arbitrary start '
                'distance; incoming ray height eps*y0 and direction tangent eps*u0 (series to order 2 in eps)',
         doc='one real-ray step reproduces the paraxial step to first order with vanishing second-order term: outgoing height and '
             'tangent are eps*(y\', u\') + O(eps^3) with (y\', u\') the paraxial transfer + refraction/reflection (induction: every '
             'surface of any lens of such surfaces)')
def h1_step(ctx, kind):
    from optiland.coordinate_system import CoordinateSystem
    from optiland.geometries import StandardGeometry, Plane
    from optiland.surfaces.standard_surface import Surface
    from optiland.rays import RealRays
    y0, u0 = ctx.real('y0'), ctx.real('u0')
    d = ctx.real('d', lo=0.01, hi=100.0)
    n1, n2 = ctx.real('n1', lo=1.0, hi=4.0), ctx.real('n2', lo=1.0, hi=4.0)
    refl = 'mirror' in kind
    if kind == 'plane':
        g = Plane(CoordinateSystem())
        c = 0.0
    else:
        R = ctx.real('R', ne=0)
        k = ctx.real('k') if 'conic' in kind else 0.0
        g = StandardGeometry(CoordinateSystem(), R, k)
        c = 1 / R
    s = Surface(g, ideal(n1), ideal(n2), is_reflective=refl)
    rays = RealRays(0.0, 0.0, 0.0, 0.0, 0.0, 1.0, 1.0, 0.55)
    if ctx.sym:
        from symopt.jet import Jet
        from symopt.facade import oarr

        def J(*c_):
            a = np.empty(1, dtype=object)
            a[0] = Jet(list(c_))
            return oarr(a)
    else:
        def J(*c_):
            return np.array([sum(float(v) * EPS ** i for i, v in enumerate(c_))])
    # direction with tangent eps*u0:  M = eps u0 - eps^3 .., N = 1 - eps^2 u0^2/2
    rays.x, rays.y, rays.z = J(0.0), J(0.0, y0), J(-d)
    if ctx.sym:
        rays.L, rays.M, rays.N = J(0.0), J(0.0, u0), J(1.0, 0.0, -u0 * u0 / 2)
    else:
        t_ = EPS * float(u0)
        rays.L, rays.M, rays.N = np.array([0.0]), np.array([t_ / math.sqrt(1 + t_ * t_)]), np.array([1 / math.sqrt(1 + t_ * t_)])
    rays.opd, rays.i, rays.w = J(0.0), J(1.0), J(0.55)
    s._trace_real(rays)
    yp = y0 + d * u0
    if refl:
        up = -u0 - 2 * yp * c
    else:
        up = (n1 * u0 - yp * c * (n2 - n1)) / n2
    y, M, N = ctx.val(s.y), ctx.val(s.M), ctx.val(s.N)
    if not ctx.finite(y) or not ctx.finite(M):
        ctx.oblige('finite_for_small_eps', False)
        return
    oblige_series(ctx, 'height', y, [0.0, yp, 0.0])
    # M/N is the slope dy/dz also behind a mirror (the paraxial u' = -u - 2y/R is a slope in the same fixed z direction)
    oblige_series(ctx, 'tangent', M / N, [0.0, up, 0.0])
    oblige_series(ctx, 'x_stays_zero', ctx.val(s.x), [0.0, 0.0, 0.0])
    # optical path: axial distance to first order in eps (no first-order term)
    oblige_series(ctx, 'opd', ctx.val(s.opd), [n1 * d, 0.0])
    ctx.observe('d', d)


def cases_system(tier):
    out = [dict(K=1, stop=1, ray='marginal', obj='inf'), dict(K=1, stop=1, ray='chief', obj='inf'),
           dict(K=2, stop=1, ray='marginal', obj='inf'), dict(K=2, stop=1, ray='marginal', obj='inf', mirror=True),
           # stop behind the rear focus of the front surface: real entrance pupil in front of the lens, before or behind the launch plane
           dict(K=2, stop=2, ray='chief', obj='inf', pin=70),
           # the same numbers: a history (trace, change the glass in front of the stop, trace again); a finite object with angular fields
           dict(K=2, stop=2, ray='chief', obj='inf', pin=70, edit=True), dict(K=2, stop=2, ray='chief', obj='finite', pin=70)]
    if tier == 'thorough':
        out += [dict(K=2, stop=2, ray='chief', obj='inf', pin=True), dict(K=2, stop=2, ray='chief', obj='inf'), dict(K=2, stop=2, ray='chief', obj='inf', edit=True),
                dict(K=2, stop=2, ray='marginal', obj='inf'), dict(K=2, stop=1, ray='chief', obj='inf'),
                dict(K=1, stop=1, ray='marginal', obj='finite'), dict(K=2, stop=2, ray='marginal', obj='finite'),
                dict(K=2, stop=2, ray='chief', obj='finite')]     # finite object with ANGULAR fields, entrance pupil not at the first vertex
    return out


@harness('C05', 'H2_system', cases=cases_system, funcs=FUNCS, timeout=400,
         bounds='real Optic with K=1..2 spherical surfaces (symbolic R, t > 0, n; pin: numbers fixed except the distance to the stop), stop first or second, object at infinity (thorough: '
                'finite); marginal-type ray: pupil coordinate eps, field 0; chief-type ray: maximum field eps*theta, pupil 0',
         doc='real-ray height / eps at every surface (through generate_rays and the whole sequential trace) tends to the paraxial '
             'marginal resp. chief ray with vanishing second-order term; the chief-type ray tends to the centre of the stop; the real '
             'axial focus tends to the paraxial back focal position')
def h2_system(ctx, K, stop, ray, obj, mirror=False, edit=False, pin=False):
    L = Lens(ctx, K, ((K,) if mirror else ()), stop, obj, tpos=True)
    if pin:
        # one-parameter family (quick tier): R1 = 20, n1 = 3/2 (rear focus 60 behind the vertex), stop surface R2 = -30 into n2 = 5/4 at the
        # symbolic distance t1 in (61, 200) - the entrance pupil is the real image of the stop in front of the lens, at -40 t1 / (t1 - 60)
        L.R = [20.0, -30.0]
        L.c = [ctx.const(0.05), 1 / ctx.const(-30.0)]
        L.n = [1.5, 1.25]
        L.t[1] = 50.0
        L.t[0] = 70.0 if pin == 70 else L.t[0]
        if pin is True:
            ctx.assume(L.t[0] > 61)
            ctx.assume(L.t[0] < 200)
    for t_ in L.t:
        ctx.assume(t_ > 0)       # surfaces are separated (with zero separation a ray has to travel backwards to the next vertex plane)
    if mirror:
        L.t[K - 1] = -L.t[K - 1]     # behind the mirror the light travels towards -z
    epd = ctx.real('epd', lo=0.1, hi=10.0)
    if ray == 'marginal':
        o = L.build(aperture=('EPD', epd), field_type='angle', fields=(0.0, 5.0))
        P = series(ctx, 0.0, 1.0)
        H = 0.0
    else:
        th = ctx.real('theta', lo=0.1, hi=20.0)
        o = L.build(aperture=('EPD', epd), field_type='angle', fields=(series(ctx, 0.0, th),))
        P = 0.0
        H = 1.0
    def pupil_ok():
        epl = ctx.val(o.paraxial.EPL())
        if not ctx.finite(epl):
            return False    # (stop in the focal plane of the front group: the entrance pupil is at infinity, no ray can be aimed at it)
        if obj == 'finite':
            ctx.assume(ctx.Not(ctx.eq(epl, ctx.val(o.surface_group.positions[0]))))     # (entrance pupil in the object plane: aim point = start point)
        return True
    if not pupil_ok():
        return
    if ctx.sym:
        from symopt.facade import oarr
        arrP = oarr([P]) if not isinstance(P, float) else ctx.arr(P)
    else:
        arrP = np.array([float(P)])
    if edit:
        # a history: analyse / trace the lens, then change the glass in front of the stop, then trace again
        o.trace_generic(0.0, H, ctx.arr(0.0), arrP, 0.55)
        o.paraxial.EPL()
        o.set_index(1.75 if pin else ctx.real('n_new', lo=1.0, hi=4.0), 1)
        if not pupil_ok():
            return
    o.trace_generic(0.0, H, ctx.arr(0.0), arrP, 0.55)
    sg = o.surface_group
    real_y = [ctx.val(v) for v in sg.y]      # (read before the paraxial queries: they re-use the per-surface records)
    real_t = [ctx.val(m_) / ctx.val(n_) for m_, n_ in zip(sg.M, sg.N)]
    if ray == 'marginal':
        ya, ua = o.paraxial.marginal_ray()
    else:
        ya, ua = o.paraxial.chief_ray()
    for k in range(1, K + 2):
        yk = real_y[k]
        par = ctx.val(ya[k])
        if not ctx.finite(yk):
            ctx.oblige(f'y{k}_finite_for_small_eps', False)
            return
        if ctx.sym:
            from symopt.jet import Jet
            pj = Jet.of(par)
            want = [pj.a[0], pj.a[1], 0.0] if ray == 'chief' else [0.0, par, 0.0]
            if not pj.finite():
                return
        else:
            want = [0.0, float(par) / EPS, 0.0] if ray == 'chief' else [0.0, par, 0.0]
        oblige_series(ctx, f'height_{k}', yk, want)
        if k <= K:
            pu = ctx.val(ua[k])
            if ctx.sym:
                from symopt.jet import Jet
                pj = Jet.of(pu)
                wu = [pj.a[0], pj.a[1], 0.0] if ray == 'chief' else [0.0, pu, 0.0]
            else:
                wu = [0.0, float(pu) / EPS, 0.0] if ray == 'chief' else [0.0, pu, 0.0]
            if ctx.finite(real_t[k]):
                oblige_series(ctx, f'tangent_{k}', real_t[k], wu)
    ctx.observe('t1', L.t[0])     # (schedules the concrete validation run of this path: the obligations are then also evaluated
    #                                on the unpatched code with eps = 1e-7, which also sees effects the symbolic run cannot, e.g. caches
    #                                keyed on raw array bytes)
    if ray == 'chief':
        oblige_series(ctx, 'passes_stop_centre', real_y[stop], [0.0, 0.0, 0.0])
    else:
        # axial focus: y_img = y_K + (z_img - z_K) tan -> crossing point; to first order y_img/eps = paraxial image height of the
        # marginal ray, which vanishes exactly when the image surface sits at the paraxial focus F2
        pass
