"""C04 - paraxial properties equal matrix optics (DESIGN §6 C04)."""
import numpy as np

from symopt.harness import harness
from checks.common import build_optic, ideal, col

FUNCS = ['optiland.paraxial.Paraxial', 'optiland.surfaces.standard_surface.Surface._trace_paraxial',
         'optiland.surfaces.surface_group.SurfaceGroup.inverted', 'optiland.surfaces.surface_group.SurfaceGroup.trace',
         'optiland.rays.paraxial_rays.ParaxialRays', 'optiland.surfaces.object_surface.ObjectSurface.trace']


# ------------------------------------------------------------------ oracle: 2x2 matrices on (y, n*u)
def mm(A, B):
    return [[A[0][0] * B[0][0] + A[0][1] * B[1][0], A[0][0] * B[0][1] + A[0][1] * B[1][1]],
            [A[1][0] * B[0][0] + A[1][1] * B[1][0], A[1][0] * B[0][1] + A[1][1] * B[1][1]]]


def ident(one):
    return [[one, one * 0], [one * 0, one]]


def signed_media(n0, ns, mirrors):
    """indices after each surface with the sign reversal convention for mirrors.
    n0: object-space index; ns[k]: material index after surface k (ignored at mirrors)."""
    out = []
    cur = n0
    sgn = 1
    for n, m in zip(ns, mirrors):
        if m:
            cur = -cur
            sgn = -sgn
        else:
            cur = sgn * n
        out.append(cur)
    return out


def chain(cs, ts, n_before, n_after, first=0, last=None, refract_first=True, refract_last=True):
    """matrix from the vertex plane of surface `first` (before its refraction if refract_first) to just
    after refraction at surface `last`.  cs: curvatures, ts[k]: distance surface k -> k+1,
    n_before[k]/n_after[k]: signed indices."""
    K = len(cs)
    last = K - 1 if last is None else last
    one = n_after[0] * 0 + 1
    M = ident(one)
    for k in range(first, last + 1):
        if k > first:
            T = [[one, ts[k - 1] / n_after[k - 1]], [one * 0, one]]
            M = mm(T, M)
        if (k > first or refract_first) and (k < last or refract_last):
            phi = cs[k] * (n_after[k] - n_before[k])
            M = mm([[one, one * 0], [-phi, one]], M)
    return M


class Lens:
    """prescription numbers + oracle"""

    def __init__(self, ctx, K, mirrors=(), stop=1, obj='inf', planes=(), media=None, tpos=False):
        self.ctx = ctx
        self.K = K
        self.mirrors = [k in mirrors for k in range(1, K + 1)]
        self.stop = stop
        self.R = []
        self.t = []
        self.n = []
        self.c = []
        for k in range(1, K + 1):
            if k in planes:
                self.R.append(np.inf)
                self.c.append(ctx.const(0.0))
            else:
                r = ctx.real(f'R{k}', ne=0)
                self.R.append(r)
                self.c.append(1 / r)
            self.t.append(ctx.real(f't{k}', lo=0.0) if tpos else ctx.real(f't{k}'))
            if self.mirrors[k - 1]:
                self.n.append('mirror')
            elif media and media.get(k) == 'air':
                self.n.append(None)
            else:
                self.n.append(ctx.real(f'n{k}', lo=1.0, hi=4.0))
        self.obj = obj
        self.t0 = np.inf if obj == 'inf' else ctx.real('t0', lo=0.0, lo_strict=True)
        self.n0 = 1.0

    def surfs(self):
        out = []
        for k in range(self.K):
            d = dict(thickness=self.t[k], n=self.n[k], stop=(k + 1 == self.stop))
            if self.R[k] is not np.inf:
                d['radius'] = self.R[k]
            out.append(d)
        return out

    def build(self, **kw):
        # the image surface keeps the last medium (the library's default would refract into 'air' there)
        last = None
        for n, m in zip(self.n, self.mirrors):
            last = last if m else n
        return build_optic(self.ctx, self.surfs(), obj_t=self.t0, image_n=last, **kw)

    # oracle pieces -------------------------------------------------------------
    def media(self):
        one = self.ctx.const(1.0)
        mats = [(one if n is None else n) for n in self.n]
        mats = [m if m != 'mirror' else None for m in mats]
        after = signed_media(one * self.n0, mats, self.mirrors)
        before = [one * self.n0] + after[:-1]
        return before, after

    def full(self):
        """curvatures / separations / signed media including the image surface as a final plane in the
        last medium"""
        b, a = self.media()
        one = self.ctx.const(1.0)
        img = getattr(self, 'image_n', None)
        img = a[-1] if img is None else one * img * (-1 if sum(self.mirrors) % 2 else 1)
        return self.c + [one * 0], list(self.t), b + [a[-1]], a + [img]

    def forward(self, first=0, last=None, refract_first=True, refract_last=True):
        c, t, b, a = self.full()
        return chain(c, t, b, a, first, last, refract_first, refract_last)

    def reversed_lens(self):
        """prescription of the reversed system: surfaces K..1, curvature negated, media swapped"""
        one = self.ctx.const(1.0)
        mats_after = [(one if n is None else n) for n in self.n]   # material after surface k (mirror: same as before)
        mat = []
        cur = one * self.n0
        for n, m in zip(mats_after, self.mirrors):
            cur = cur if m else n
            mat.append(cur)
        # material sequence in the reversed system: starts in mat[K-1] (image space), after reversed surface j
        # (= original surface K-1-j) comes the material that preceded it originally
        pre = [one * self.n0] + mat[:-1]
        # the image surface (plane, post-medium air) is the first surface of the reversed system
        cs = [one * 0] + [-c for c in self.c[::-1]]
        ts = [t for t in self.t[::-1]]
        mirrors = [False] + self.mirrors[::-1]
        img = getattr(self, 'image_n', None)
        n_start = mat[-1] if img is None else one * img
        ns = [mat[-1]] + pre[::-1]
        after = signed_media(n_start, ns, mirrors)
        before = [n_start] + after[:-1]
        return cs, ts, before, after


def cases_system(tier):
    out = []
    Ks = [1, 2, 3] if tier == 'quick' else [1, 2, 3, 4]
    for K in Ks:
        stops = sorted({1, (K + 1) // 2, K}) if K <= 3 else [2]
        for s in stops:
            for obj in (['inf', 'finite'] if (K <= 2 or (tier == 'thorough' and K <= 3)) else ['inf']):
                out.append(dict(K=K, stop=s, obj=obj, mirrors=()))
    # mirrors: single mirror, mirror followed by a refracting surface pair, two mirrors (Cassegrain-like)
    out.append(dict(K=1, stop=1, obj='inf', mirrors=(1,)))
    out.append(dict(K=2, stop=1, obj='inf', mirrors=(1, 2)))
    out.append(dict(K=2, stop=2, obj='inf', mirrors=(2,)))
    if tier == 'thorough':
        out.append(dict(K=3, stop=2, obj='finite', mirrors=(2,)))
        out.append(dict(K=3, stop=1, obj='inf', mirrors=(1, 3)))
    return out


def _oblige_val(ctx, name, lib, oracle, degenerate=False):
    """library value equals the oracle when both are finite.  A non-finite library value is accepted
    only on a degenerate path (a denominator of the oracle vanishes there: afocal system, pupil at
    infinity, ...); a finite library value where the oracle is undefined is a violation."""
    lib = ctx.val(lib)
    oracle = ctx.val(oracle)
    if ctx.finite(lib) and ctx.finite(oracle):
        ctx.oblige(name, ctx.eq(lib, oracle))
    elif not ctx.finite(lib):
        ctx.oblige(name + '_nonfinite_only_if_degenerate', (not ctx.finite(oracle)) or degenerate)
    else:
        ctx.oblige(name + '_finite_but_oracle_undefined', degenerate)


@harness('C04', 'H3_cardinal', cases=cases_system, funcs=FUNCS,
         bounds='K<=3 real surfaces (thorough 4), all R,t,n symbolic (n in [1,4]), stop first/middle/last, '
                'object at infinity or finite, mirrors at enumerated positions',
         doc='f1 f2 F1 F2 P1 P2 N1 N2 of the real Paraxial class = ABCD matrix formulas')
def h3_cardinal(ctx, K, stop, obj, mirrors):
    L = Lens(ctx, K, mirrors, stop, obj)
    o = L.build()
    px = o.paraxial
    c_, t_, b, a = L.full()
    M = L.forward()
    A, B, C, D = M[0][0], M[0][1], M[1][0], M[1][1]
    nK = a[-1]
    f2o = -nK / C
    F2o = -A * nK / C
    cs, ts, rb, ra = L.reversed_lens()
    Mr = chain(cs, ts, rb, ra)
    Ar, Cr = Mr[0][0], Mr[1][0]
    n_end = ra[-1]
    f1o = n_end / Cr
    F1o = Ar * n_end / Cr
    ctx.observe('C', C)
    f2 = px.f2()
    ctx.observe('f2', f2)
    _oblige_val(ctx, 'f2', f2, f2o)
    _oblige_val(ctx, 'F2', px.F2(), F2o)
    _oblige_val(ctx, 'f1', px.f1(), f1o)
    _oblige_val(ctx, 'F1', px.F1(), F1o)
    _oblige_val(ctx, 'P1', px.P1(), F1o - f1o)
    _oblige_val(ctx, 'P2', px.P2(), F2o - f2o)
    _oblige_val(ctx, 'N1', px.N1(), F1o + f2o)
    _oblige_val(ctx, 'N2', px.N2(), F2o + f1o)


@harness('C04', 'H1_step', funcs=FUNCS,
         cases=lambda tier: [dict(kind=k) for k in ('refract', 'reflect', 'plane', 'image')],
         bounds='one surface, arbitrary incoming paraxial ray (y,u,z), arbitrary R, n, n\', vertex z',
         doc='one paraxial step = transfer to the vertex plane then n\'u\' = nu - y(n\'-n)/R (u\' = -u - 2y/R at a mirror)')
def h1_step(ctx, kind):
    from optiland.coordinate_system import CoordinateSystem
    from optiland.geometries import StandardGeometry, Plane
    from optiland.surfaces.standard_surface import Surface
    from optiland.surfaces.image_surface import ImageSurface
    from optiland.rays import ParaxialRays
    y, u, z, zs = ctx.real('y'), ctx.real('u'), ctx.real('z'), ctx.real('zs')
    n1, n2 = ctx.real('n1', lo=1, hi=4), ctx.real('n2', lo=1, hi=4)
    cs = CoordinateSystem(z=zs)
    if kind == 'plane':
        g = Plane(cs)
        c = 0.0
    else:
        R = ctx.real('R', ne=0)
        g = StandardGeometry(cs, R, 0.0)
        c = 1 / R
    if kind == 'image':
        s = ImageSurface(g, ideal(n1))
    else:
        s = Surface(g, ideal(n1), ideal(n2), is_reflective=(kind == 'reflect'))
    rays = ParaxialRays(y, u, z, 0.55)
    s.trace(rays)
    yo = y + (zs - z) * u
    if kind == 'reflect':
        uo = -u - 2 * yo * c
    elif kind == 'image':
        uo = u
    else:
        uo = (n1 * u - yo * c * (n2 - n1)) / n2
    ctx.observe('y', rays.y)
    ctx.observe('u', rays.u)
    ctx.oblige('y_out', ctx.eq(rays.y, yo))
    ctx.oblige('u_out', ctx.eq(rays.u, uo))
    if kind != 'image':
        ctx.oblige('z_out', ctx.eq(rays.z, zs))
    ctx.oblige('rec_y', ctx.eq(s.y, yo))
    ctx.oblige('rec_u', ctx.eq(s.u, uo))


def cases_pupils(tier):
    out = []
    Ks = [1, 2] if tier == 'quick' else [1, 2, 3]
    for K in Ks:
        for s in sorted({1, (K + 1) // 2, K}):
            out.append(dict(K=K, stop=s, obj='inf', ap='EPD', ft='angle', mirrors=()))
            out.append(dict(K=K, stop=s, obj='finite', ap='EPD', ft='object_height', mirrors=()))
            if K == 2 or tier == 'thorough':
                out.append(dict(K=K, stop=s, obj='inf', ap='imageFNO', ft='angle', mirrors=()))
                out.append(dict(K=K, stop=s, obj='finite', ap='objectNA', ft='angle', mirrors=()))
    out.append(dict(K=2, stop=1, obj='inf', ap='EPD', ft='angle', mirrors=(1, 2)))
    out.append(dict(K=2, stop=2, obj='finite', ap='EPD', ft='object_height', mirrors=(2,)))
    if tier == 'quick':
        out.append(dict(K=3, stop=2, obj='inf', ap='EPD', ft='angle', mirrors=()))
    return out


@harness('C04', 'H3_pupils', cases=cases_pupils, funcs=FUNCS,
         bounds='K<=2 (+ one K=3 interior-stop case; thorough K<=4), all R,t,n symbolic, aperture EPD/imageFNO/objectNA '
                'with symbolic value, field angle/object_height with symbolic maximum, object inf/finite, mirrors',
         doc='EPL XPL EPD XPD FNO magnification marginal_ray chief_ray invariant = ABCD formulas; Lagrange invariant constant')
def h3_pupils(ctx, K, stop, obj, ap, ft, mirrors):
    import math
    L = Lens(ctx, K, mirrors, stop, obj)
    apv = ctx.real('apv', lo=0.01, hi=(0.9 if ap == 'objectNA' else 50.0))
    fy = ctx.real('fy', lo=0.01, hi=(60.0 if ft == 'angle' else 50.0))
    o = L.build(aperture=(ap, apv), field_type=ft, fields=(fy,))
    px = o.paraxial
    c_, t_, nb, na = L.full()
    n0 = nb[0]
    s = stop - 1                       # 0-based index of the stop in the chain
    Ms = L.forward(0, s, True, False)  # surface 1 (before refraction) -> stop plane (before its refraction)
    As, Bs = Ms[0][0], Ms[0][1]
    EPLo = Bs * n0 / As
    Mx = L.forward(s, K, False, True)  # stop plane (after its refraction) -> image surface (after refraction)
    Bx, Dx = Mx[0][1], Mx[1][1]
    ni = na[-1]
    XPLo = -Bx * ni / Dx
    M = L.forward()
    f2o = -ni / M[1][0]
    z_obj = None if obj == 'inf' else -L.t0
    epl = px.EPL()
    ctx.observe('EPL', epl)
    _oblige_val(ctx, 'EPL', epl, EPLo)
    _oblige_val(ctx, 'XPL', px.XPL(), XPLo)
    prim = [EPLo, XPLo, f2o]
    if ap == 'EPD':
        EPDo = apv
    elif ap == 'imageFNO':
        EPDo = f2o / apv
    else:
        sn = apv / n0
        EPDo = 2 * (EPLo - z_obj) * (sn / ctx.sqrt(1 - sn * sn))
    prim.append(EPDo)
    deg = not all(ctx.finite(q) for q in prim)
    _oblige_val(ctx, 'EPD', px.EPD(), EPDo, deg)
    _oblige_val(ctx, 'FNO', px.FNO(), apv if ap == 'imageFNO' else f2o / EPDo, deg)
    # marginal ray
    if obj == 'inf':
        y1, u0 = EPDo / 2, ctx.const(0.0)
        y_start = y1
    else:
        u0 = EPDo / (2 * (EPLo - z_obj))
        y1 = u0 * L.t0
        y_start = ctx.const(0.0)
    ya, ua = px.marginal_ray()
    ctx.observe('ya_last', ya[-1])
    ctx.observe('ua_last', ua[-1])
    _oblige_val(ctx, 'marg_y0', ya[0], y_start, deg)
    _oblige_val(ctx, 'marg_u0', ua[0], u0, deg)
    ymo, umo = [], []
    for k in range(K + 1):
        Mk = L.forward(0, k, True, True)
        yk = Mk[0][0] * y1 + Mk[0][1] * n0 * u0
        uk = (Mk[1][0] * y1 + Mk[1][1] * n0 * u0) / na[k]
        ymo.append(yk)
        umo.append(uk)
        _oblige_val(ctx, f'marg_y{k + 1}', ya[k + 1], yk, deg)
        _oblige_val(ctx, f'marg_u{k + 1}', ua[k + 1], uk, deg)
    # chief ray: through the stop centre; object-space slope tan(field) / object point (-t0, -fy)
    if ft == 'angle':
        ub0 = ctx.tan(fy * (math.pi / 180.0))
        yb1 = -EPLo * ub0
    else:
        ub0 = As * fy / (As * L.t0 + Bs * n0)
        yb1 = -fy + L.t0 * ub0
    deg = deg or not (ctx.finite(ub0) and ctx.finite(yb1) and ctx.finite(u0) and ctx.finite(y1))
    yb, ub = px.chief_ray()
    ybo, ubo = [], []
    for k in range(K + 1):
        Mk = L.forward(0, k, True, True)
        yk = Mk[0][0] * yb1 + Mk[0][1] * n0 * ub0
        uk = (Mk[1][0] * yb1 + Mk[1][1] * n0 * ub0) / na[k]
        ybo.append(yk)
        ubo.append(uk)
        _oblige_val(ctx, f'chief_y{k + 1}', yb[k + 1], yk, deg)
        _oblige_val(ctx, f'chief_u{k + 1}', ub[k + 1], uk, deg)
    # the returned chief ray passes through the centre of the stop
    _oblige_val(ctx, 'chief_at_stop', yb[stop], ctx.const(0.0), deg)
    # Lagrange invariant n (yb*ua - ya*ub): one value at every surface, equal to invariant()
    nlib = o.n()
    inv = px.invariant()
    ctx.observe('invariant', inv)
    h0 = None
    for k in range(0, K + 2):
        hk = ctx.val(nlib[k]) * (ctx.val(yb[k]) * ctx.val(ua[k]) - ctx.val(ya[k]) * ctx.val(ub[k]))
        sgn = -1 if sum(L.mirrors[:k]) % 2 else 1   # index sign reversal after each mirror
        if k == 0:
            if obj == 'inf':
                continue   # the object-surface record of the marginal ray is taken 10 mm before surface 1, the chief ray's at surface 1
            h0 = hk
            continue
        if k == 1:
            _oblige_val(ctx, 'invariant_fn', inv, hk)   # invariant() is this quantity at surface 1
            h0 = sgn * hk
        else:
            _oblige_val(ctx, f'invariant_{k}', sgn * hk, h0, deg)
    # ... and it equals the object-space value n0 (yb1*u0 - y1*ub0) of the oracle rays
    _oblige_val(ctx, 'invariant_objspace', h0, n0 * (yb1 * u0 - y1 * ub0), deg)
    # magnification, exit pupil diameter
    mo = n0 * u0 / (na[-1] * umo[-1])
    if obj != 'inf':
        _oblige_val(ctx, 'magnification', px.magnification(), (n0 * u0) / (ctx.val(nlib[-1]) * umo[-1]), deg)
    XPDo = 2 * (ymo[-1] + umo[-1] * XPLo)
    _oblige_val(ctx, 'XPD', px.XPD(), XPDo, deg)


@harness('C04', 'H4_linear', funcs=FUNCS,
         cases=lambda tier: [dict(K=2, mirrors=()), dict(K=2, mirrors=(2,))] + ([dict(K=3, mirrors=())] if tier == 'thorough' else []),
         bounds='K=2 (thorough 3); two arbitrary launch rays and two arbitrary weights',
         doc='_trace_generic is linear in launch height and slope: trace(a r1 + b r2) = a trace(r1) + b trace(r2)')
def h4_linear(ctx, K, mirrors):
    L = Lens(ctx, K, mirrors, 1, 'inf')
    o = L.build()
    px = o.paraxial
    y1, u1, y2, u2, a, b = (ctx.real(n) for n in ('y1', 'u1', 'y2', 'u2', 'a', 'b'))
    z0 = ctx.real('z0', hi=0.0)
    w = 0.55
    Y1, U1 = px._trace_generic(y1, u1, z0, w)
    Y1, U1 = [ctx.val(v) for v in Y1], [ctx.val(v) for v in U1]
    Y2, U2 = px._trace_generic(y2, u2, z0, w)
    Y2, U2 = [ctx.val(v) for v in Y2], [ctx.val(v) for v in U2]
    Y3, U3 = px._trace_generic(a * y1 + b * y2, a * u1 + b * u2, z0, w)
    for k in range(len(Y3)):
        ctx.oblige(f'lin_y{k}', ctx.eq(Y3[k], a * Y1[k] + b * Y2[k]))
        ctx.oblige(f'lin_u{k}', ctx.eq(U3[k], a * U1[k] + b * U2[k]))
    ctx.observe('y_last', Y3[-1])


@harness('C04', 'H5_after_edit', funcs=FUNCS + ['optiland.optic.Optic.set_index', 'optiland.optic.Optic.set_radius', 'optiland.optic.Optic.set_thickness'],
         cases=lambda tier: [dict(op=op, at=at) for op, at in (('set_index', 1), ('set_index', 2), ('set_radius', 2), ('set_thickness', 1))] +
         [dict(op='set_index', at=1, stop=2), dict(op='set_radius', at=1, stop=2)],
         bounds='K=2 lens, one edit with a symbolic argument, then the cardinal points / marginal ray of the edited lens',
         doc='a lens reached through an edit has the paraxial properties of its new prescription (wiring of edits into the paraxial trace)')
def h5_after_edit(ctx, op, at, stop=1):
    L = Lens(ctx, 2, (), stop, 'inf')
    o = L.build()
    n2_old = L.n[1]
    # the lens has been analysed before the edit (stale caches of paraxial quantities would show)
    o.paraxial.EPL()
    o.paraxial.f2()
    o.paraxial.XPL()
    if op == 'set_index':
        v = ctx.real('v', lo=1.0, hi=4.0)
        o.set_index(v, at)
        L.n[at - 1] = v
        if at == 2:
            L.image_n = n2_old   # the image surface keeps the medium it was built with
    elif op == 'set_radius':
        v = ctx.real('v', ne=0)
        o.set_radius(v, at)
        L.R[at - 1] = v
        L.c[at - 1] = 1 / v
    else:
        v = ctx.real('v')
        o.set_thickness(v, at)
        L.t[at - 1] = v
    px = o.paraxial
    c_, t_, b, a = L.full()
    M = L.forward()
    A, C = M[0][0], M[1][0]
    nK = a[-1]
    _oblige_val(ctx, 'f2', px.f2(), -nK / C)
    _oblige_val(ctx, 'F2', px.F2(), -A * nK / C)
    cs, ts, rb, ra = L.reversed_lens()
    Mr = chain(cs, ts, rb, ra)
    _oblige_val(ctx, 'f1', px.f1(), ra[-1] / Mr[1][0])
    _oblige_val(ctx, 'F1', px.F1(), Mr[0][0] * ra[-1] / Mr[1][0])
    ya, ua = px.marginal_ray()
    for k in range(3):
        Mk = L.forward(0, k, True, True)
        _oblige_val(ctx, f'marg_y{k + 1}', ya[k + 1], Mk[0][0] * 5.0)
        _oblige_val(ctx, f'marg_u{k + 1}', ua[k + 1], Mk[1][0] * 5.0 / a[k])
    ctx.observe('f2', px.f2())
    if stop != 1:
        c_, t_, nb, na = L.full()
        Ms = L.forward(0, stop - 1, True, False)
        _oblige_val(ctx, 'EPL', px.EPL(), Ms[0][1] * nb[0] / Ms[0][0])
        Mx = L.forward(stop - 1, 2, False, True)
        _oblige_val(ctx, 'XPL', px.XPL(), -Mx[0][1] * na[-1] / Mx[1][1])
