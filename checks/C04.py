"""C04 - paraxial properties equal matrix optics (DESIGN §6 C04)."""
import numpy as np

from symopt.harness import harness
from checks.common import build_optic, ideal, col

FUNCS = ['optiland.paraxial.Paraxial', 'optiland.surfaces.standard_surface.Surface._trace_paraxial',
         'optiland.surfaces.surface_group.SurfaceGroup.inverted', 'optiland.surfaces.surface_group.SurfaceGroup.trace',
         'optiland.rays.paraxial_rays.ParaxialRays', 'optiland.surfaces.object_surface.ObjectSurface.trace']


# ------------------------------------------------------------------ oracle: 2x2 matrices on (y, n*u)
def mm(A, B):
    return [[A[0][0] * B[0][0] + A[0][1] * B[1][0], A[0][0] * B[0][1] + A[0][1] * B[1][1]],
            [A[1][0] * B[0][0] + A[1][1] * B[1][0], A[1][0] * B[0][1] + A[1][1] * B[1][1]]]


def ident(one):
    return [[one, one * 0], [one * 0, one]]


def signed_media(n0, ns, mirrors):
    """indices after each surface with the sign reversal convention for mirrors.
    n0: object-space index; ns[k]: material index after surface k (ignored at mirrors)."""
    out = []
    cur = n0
    sgn = 1
    for n, m in zip(ns, mirrors):
        if m:
            cur = -cur
            sgn = -sgn
        else:
            cur = sgn * n
        out.append(cur)
    return out


def chain(cs, ts, n_before, n_after, first=0, last=None, refract_first=True):
    """matrix from the vertex plane of surface `first` (before its refraction if refract_first) to just
    after refraction at surface `last`.  cs: curvatures, ts[k]: distance surface k -> k+1,
    n_before[k]/n_after[k]: signed indices."""
    K = len(cs)
    last = K - 1 if last is None else last
    one = n_after[0] * 0 + 1
    M = ident(one)
    for k in range(first, last + 1):
        if k > first:
            T = [[one, ts[k - 1] / n_after[k - 1]], [one * 0, one]]
            M = mm(T, M)
        if k > first or refract_first:
            phi = cs[k] * (n_after[k] - n_before[k])
            M = mm([[one, one * 0], [-phi, one]], M)
    return M


class Lens:
    """prescription numbers + oracle"""

    def __init__(self, ctx, K, mirrors=(), stop=1, obj='inf', planes=(), media=None):
        self.ctx = ctx
        self.K = K
        self.mirrors = [k in mirrors for k in range(1, K + 1)]
        self.stop = stop
        self.R = []
        self.t = []
        self.n = []
        self.c = []
        for k in range(1, K + 1):
            if k in planes:
                self.R.append(np.inf)
                self.c.append(ctx.const(0.0))
            else:
                r = ctx.real(f'R{k}', ne=0)
                self.R.append(r)
                self.c.append(1 / r)
            self.t.append(ctx.real(f't{k}'))
            if self.mirrors[k - 1]:
                self.n.append('mirror')
            elif media and media.get(k) == 'air':
                self.n.append(None)
            else:
                self.n.append(ctx.real(f'n{k}', lo=1.0, hi=4.0))
        self.obj = obj
        self.t0 = np.inf if obj == 'inf' else ctx.real('t0', lo=0.0, lo_strict=True)
        self.n0 = 1.0

    def surfs(self):
        out = []
        for k in range(self.K):
            d = dict(thickness=self.t[k], n=self.n[k], stop=(k + 1 == self.stop))
            if self.R[k] is not np.inf:
                d['radius'] = self.R[k]
            out.append(d)
        return out

    def build(self, **kw):
        return build_optic(self.ctx, self.surfs(), obj_t=self.t0, **kw)

    # oracle pieces -------------------------------------------------------------
    def media(self):
        one = self.ctx.const(1.0)
        mats = [(one if n is None else n) for n in self.n]
        mats = [m if m != 'mirror' else None for m in mats]
        after = signed_media(one * self.n0, mats, self.mirrors)
        before = [one * self.n0] + after[:-1]
        return before, after

    def full(self):
        """curvatures / separations / signed media including the image surface as a final plane whose
        post-medium is air (the library's image surface is an ordinary refracting plane into 'air')"""
        b, a = self.media()
        one = self.ctx.const(1.0)
        sgn = -1 if sum(self.mirrors) % 2 else 1
        return self.c + [one * 0], list(self.t), b + [a[-1]], a + [one * sgn]

    def forward(self, first=0, last=None, refract_first=True):
        c, t, b, a = self.full()
        return chain(c, t, b, a, first, last, refract_first)

    def reversed_lens(self):
        """prescription of the reversed system: surfaces K..1, curvature negated, media swapped"""
        one = self.ctx.const(1.0)
        mats_after = [(one if n is None else n) for n in self.n]   # material after surface k (mirror: same as before)
        mat = []
        cur = one * self.n0
        for n, m in zip(mats_after, self.mirrors):
            cur = cur if m else n
            mat.append(cur)
        # material sequence in the reversed system: starts in mat[K-1] (image space), after reversed surface j
        # (= original surface K-1-j) comes the material that preceded it originally
        pre = [one * self.n0] + mat[:-1]
        # the image surface (plane, post-medium air) is the first surface of the reversed system
        cs = [one * 0] + [-c for c in self.c[::-1]]
        ts = [t for t in self.t[::-1]]
        mirrors = [False] + self.mirrors[::-1]
        n_start = one
        ns = [mat[-1]] + pre[::-1]
        after = signed_media(n_start, ns, mirrors)
        before = [n_start] + after[:-1]
        return cs, ts, before, after


def cases_system(tier):
    out = []
    Ks = [1, 2, 3] if tier == 'quick' else [1, 2, 3, 4, 5]
    for K in Ks:
        stops = sorted({1, (K + 1) // 2, K})
        for s in stops:
            for obj in (['inf', 'finite'] if (K <= 2 or tier == 'thorough') else ['inf']):
                out.append(dict(K=K, stop=s, obj=obj, mirrors=()))
    # mirrors: single mirror, mirror followed by a refracting surface pair, two mirrors (Cassegrain-like)
    out.append(dict(K=1, stop=1, obj='inf', mirrors=(1,)))
    out.append(dict(K=2, stop=1, obj='inf', mirrors=(1, 2)))
    out.append(dict(K=2, stop=2, obj='inf', mirrors=(2,)))
    if tier == 'thorough':
        out.append(dict(K=3, stop=2, obj='finite', mirrors=(2,)))
        out.append(dict(K=3, stop=1, obj='inf', mirrors=(1, 3)))
    return out


def _oblige_val(ctx, name, lib, oracle):
    """library value equals oracle when finite; non-finite exactly when the oracle is non-finite"""
    lib = ctx.val(lib)
    oracle = ctx.val(oracle)
    if ctx.finite(lib) and ctx.finite(oracle):
        ctx.oblige(name, ctx.eq(lib, oracle))
    else:
        ctx.oblige(name + '_nonfinite_both', (not ctx.finite(lib)) and (not ctx.finite(oracle)))


@harness('C04', 'H3_cardinal', cases=cases_system, funcs=FUNCS,
         bounds='K<=3 real surfaces (thorough 5), all R,t,n symbolic (n in [1,4]), stop first/middle/last, '
                'object at infinity or finite, mirrors at enumerated positions',
         doc='f1 f2 F1 F2 P1 P2 N1 N2 of the real Paraxial class = ABCD matrix formulas')
def h3_cardinal(ctx, K, stop, obj, mirrors):
    L = Lens(ctx, K, mirrors, stop, obj)
    o = L.build()
    px = o.paraxial
    c_, t_, b, a = L.full()
    M = L.forward()
    A, B, C, D = M[0][0], M[0][1], M[1][0], M[1][1]
    nK = a[-1]
    f2o = -nK / C
    F2o = -A * nK / C
    cs, ts, rb, ra = L.reversed_lens()
    Mr = chain(cs, ts, rb, ra)
    Ar, Cr = Mr[0][0], Mr[1][0]
    n_end = ra[-1]
    f1o = n_end / Cr
    F1o = Ar * n_end / Cr
    ctx.observe('C', C)
    f2 = px.f2()
    ctx.observe('f2', f2)
    _oblige_val(ctx, 'f2', f2, f2o)
    _oblige_val(ctx, 'F2', px.F2(), F2o)
    _oblige_val(ctx, 'f1', px.f1(), f1o)
    _oblige_val(ctx, 'F1', px.F1(), F1o)
    _oblige_val(ctx, 'P1', px.P1(), F1o - f1o)
    _oblige_val(ctx, 'P2', px.P2(), F2o - f2o)
    _oblige_val(ctx, 'N1', px.N1(), F1o + f2o)
    _oblige_val(ctx, 'N2', px.N2(), F2o + f1o)


@harness('C04', 'H1_step', funcs=FUNCS,
         cases=lambda tier: [dict(kind=k) for k in ('refract', 'reflect', 'plane', 'image')],
         bounds='one surface, arbitrary incoming paraxial ray (y,u,z), arbitrary R, n, n\', vertex z',
         doc='one paraxial step = transfer to the vertex plane then n\'u\' = nu - y(n\'-n)/R (u\' = -u - 2y/R at a mirror)')
def h1_step(ctx, kind):
    from optiland.coordinate_system import CoordinateSystem
    from optiland.geometries import StandardGeometry, Plane
    from optiland.surfaces.standard_surface import Surface
    from optiland.surfaces.image_surface import ImageSurface
    from optiland.rays import ParaxialRays
    y, u, z, zs = ctx.real('y'), ctx.real('u'), ctx.real('z'), ctx.real('zs')
    n1, n2 = ctx.real('n1', lo=1, hi=4), ctx.real('n2', lo=1, hi=4)
    cs = CoordinateSystem(z=zs)
    if kind == 'plane':
        g = Plane(cs)
        c = 0.0
    else:
        R = ctx.real('R', ne=0)
        g = StandardGeometry(cs, R, 0.0)
        c = 1 / R
    if kind == 'image':
        s = ImageSurface(g, ideal(n1))
    else:
        s = Surface(g, ideal(n1), ideal(n2), is_reflective=(kind == 'reflect'))
    rays = ParaxialRays(y, u, z, 0.55)
    s.trace(rays)
    yo = y + (zs - z) * u
    if kind == 'reflect':
        uo = -u - 2 * yo * c
    elif kind == 'image':
        uo = u
    else:
        uo = (n1 * u - yo * c * (n2 - n1)) / n2
    ctx.observe('y', rays.y)
    ctx.observe('u', rays.u)
    ctx.oblige('y_out', ctx.eq(rays.y, yo))
    ctx.oblige('u_out', ctx.eq(rays.u, uo))
    if kind != 'image':
        ctx.oblige('z_out', ctx.eq(rays.z, zs))
    ctx.oblige('rec_y', ctx.eq(s.y, yo))
    ctx.oblige('rec_u', ctx.eq(s.u, uo))
