"""C14 - optimisers leave the lens at the returned solution, never worse than the start (DESIGN §6 C14)."""
import copy

import numpy as np

from symopt.harness import harness
from checks.common import ideal
from checks.C01 import make_lens, snapshot, frame, marginal_oracle

FUNCS = ['optiland.optimization.optimization.OptimizationProblem', 'optiland.optimization.optimization.OptimizerGeneric',
         'optiland.optimization.optimization.LeastSquares', 'optiland.optimization.optimization.DualAnnealing',
         'optiland.optimization.optimization.DifferentialEvolution', 'optiland.optimization.operand.operand.Operand',
         'optiland.optimization.variable.variable.Variable', 'optiland.tolerancing.compensator.CompensatorOptimizer']

STUBS = ['scipy.optimize.minimize / least_squares / dual_annealing / differential_evolution -> evaluate fun at x0 and at <=2 '
         'arbitrary points inside the bounds passed in, return the best evaluated point (x, fun); workers=-1: evaluations on deep '
         'copies of the problem, then a final polishing evaluation sequence in the parent as scipy does (polish=True)',
         'operands -> uninterpreted functions of the prescription numbers']


class Result:
    pass


def make_stub(ctx, npts, log, parallel=False):
    """the documented contract of the scipy optimisers as a nondeterministic stub"""

    def pick(i, j, lo, hi):
        v = ctx.real(f'p{i}_{j}', ne=-1.0)     # (scaled radius -1 would be the radius 0: not a lens)
        if lo is not None and ctx.finite(lo):
            ctx.assume(ctx.le(lo, v) if not ctx.sym else (v >= lo))
        if hi is not None and ctx.finite(hi):
            ctx.assume(ctx.le(v, hi) if not ctx.sym else (v <= hi))
        return v

    def run(fun, x0, bounds, evaluate_x0=True):
        nv = len(x0)
        bnds = [(None, None)] * nv if bounds is None else [tuple(b_) for b_ in bounds]
        pts = [list(x0)] if evaluate_x0 else []
        for i in range(npts):
            pts.append([pick(i, j, bnds[j][0], bnds[j][1]) for j in range(nv)])
        if parallel:
            f_eval = lambda p: copy.deepcopy(fun.__self__)._fun(p)   # worker processes operate on copies
        else:
            f_eval = fun
        vals = [f_eval(p) for p in pts]
        best = 0
        for i in range(1, len(pts)):
            if bool(ctx.val(vals[i]) < ctx.val(vals[best])):
                best = i
        log.append(dict(points=pts, values=vals, best=best, bounds=bnds))
        r = Result()
        r.x = np.array(pts[best], dtype=object) if ctx.sym else np.array([float(v) for v in pts[best]])
        r.fun = vals[best]
        r.success = True
        return r

    class Opt:
        @staticmethod
        def minimize(fun, x0, method=None, bounds=None, options=None, tol=None, **k):
            return run(fun, x0, bounds)

        @staticmethod
        def least_squares(fun, x0, bounds=None, max_nfev=None, verbose=0, ftol=None, **k):
            lo, hi = bounds
            r = run(fun, x0, [(a, b) for a, b in zip(lo, hi)])
            r.cost = r.fun
            return r

        @staticmethod
        def dual_annealing(fun, bounds=None, maxiter=None, x0=None, **k):
            return run(fun, x0, bounds)

        @staticmethod
        def differential_evolution(fun, bounds=None, maxiter=None, x0=None, disp=None, updating=None, workers=1, **k):
            return run(fun, x0, bounds)
    return Opt


def uf_operands(ctx, tag=''):
    """two operands that are uninterpreted functions of the prescription"""
    from optiland.optimization.operand.operand import operand_registry

    def mk(name):
        def f(optic):
            sg = optic.surface_group
            ns = sg.num_surfaces
            args = [ctx.val(sg.radii[k]) for k in range(1, ns - 1)] + [ctx.val(sg.positions[k]) for k in range(2, ns)] + \
                [ctx.val(optic.n(0.55)[1])]
            # non-finite prescription numbers (plane radius, lost solve) enter as a fixed marker value
            args = [a if ctx.finite(a) else 12345.0 for a in args]
            return ctx.uf(name, *args)
        return f
    for nm in ('ufA', 'ufB'):
        operand_registry.register(nm + tag, mk(nm), overwrite=True)


def install(ctx, npts, log, parallel=False):
    import optiland.optimization.optimization as om
    om.optimize = make_stub(ctx, npts, log, parallel)


def problem(ctx, o, variables):
    from optiland.optimization import OptimizationProblem
    uf_operands(ctx)
    prob = OptimizationProblem()
    tA, tB = ctx.real('tgtA'), ctx.real('tgtB')
    wA, wB = ctx.real('wA', lo=0.0, hi=10.0), ctx.real('wB', lo=0.0, hi=10.0)
    prob.add_operand('ufA', target=tA, weight=wA, input_data={'optic': o})
    prob.add_operand('ufB', target=tB, weight=wB, input_data={'optic': o})
    for kw in variables:
        prob.add_variable(o, **kw)
    return prob, (tA, tB, wA, wB)


OPTS = ('generic', 'least_squares', 'dual_annealing', 'differential_evolution', 'differential_evolution_parallel')


def cases_opt(tier):
    out = []
    for opt in OPTS:
        out.append(dict(opt=opt, vars='radius'))
    out.append(dict(opt='generic', vars='radius+thickness'))
    out.append(dict(opt='least_squares', vars='thickness_unscaled'))
    out.append(dict(opt='generic', vars='index'))
    return out


VARSETS = {
    'radius': [dict(variable_type='radius', surface_number=1, min_val=-500.0, max_val=500.0)],
    'radius+thickness': [dict(variable_type='radius', surface_number=1, min_val=-500.0, max_val=500.0),
                         dict(variable_type='thickness', surface_number=1, min_val=0.0, max_val=20.0)],
    'thickness_unscaled': [dict(variable_type='thickness', surface_number=1, min_val=0.0, max_val=20.0, apply_scaling=False)],
    'index': [dict(variable_type='index', surface_number=1, wavelength=0.55, min_val=1.0, max_val=2.0)],
}


def run_optimizer(opt, prob):
    from optiland.optimization import OptimizerGeneric, LeastSquares, DualAnnealing, DifferentialEvolution
    if opt == 'generic':
        oz = OptimizerGeneric(prob)
        return oz, oz.optimize(disp=False)
    if opt == 'least_squares':
        oz = LeastSquares(prob)
        return oz, oz.optimize()
    if opt == 'dual_annealing':
        oz = DualAnnealing(prob)
        return oz, oz.optimize(maxiter=10, disp=False)
    oz = DifferentialEvolution(prob)
    return oz, oz.optimize(maxiter=10, disp=False, workers=(-1 if opt.endswith('parallel') else 1))


def phys(var, x):
    """physical parameter value corresponding to optimiser-space value x"""
    return var.variable.inverse_scale(x) if var.apply_scaling else x


@harness('C14', 'H1_post_state', cases=cases_opt, funcs=FUNCS, stubs=STUBS,
         bounds='K=2 lens with symbolic numbers; 1-2 variables (radius, thickness scaled/unscaled, index) with bounds; two operands = '
                'uninterpreted functions with symbolic targets and weights; scipy = stub with 2 further evaluation points (3 evaluations)',
         doc='when optimize() returns: variable values = result.x, re-evaluated merit = result.fun, not worse than the start, every '
             'bounded variable inside its bounds; undo() restores the prescription')
def h1_post(ctx, opt, vars):
    o, sp = make_lens(ctx, ('standard', 'standard'), 'inf', None, stops=1)
    log = []
    install(ctx, 2, log, parallel=opt.endswith('parallel'))
    prob, (tA, tB, wA, wB) = problem(ctx, o, VARSETS[vars])
    # the start point lies inside the bounds (scipy would project it onto them otherwise)
    for var in prob.variables:
        p0 = phys(var, var.value)
        ctx.assume(ctx.And(ctx.le(var.min_val, p0), ctx.le(p0, var.max_val)))
    before = snapshot(ctx, o)
    f0 = prob.sum_squared()
    oz, res = run_optimizer(opt, prob)
    xs = ctx.vals(res.x)
    for j, var in enumerate(prob.variables):
        ctx.oblige(f'lens_at_returned_solution_{j}', ctx.eq(var.value, xs[j]))
        p = phys(var, xs[j])
        if var.min_val is not None:
            ctx.oblige(f'within_lower_bound_{j}', ctx.le(var.min_val, p))
        if var.max_val is not None:
            ctx.oblige(f'within_upper_bound_{j}', ctx.le(p, var.max_val))
    fun = ctx.val(res.fun[0]) if isinstance(res.fun, np.ndarray) and np.ndim(res.fun) > 0 else ctx.val(res.fun)
    ctx.oblige('merit_reproduces_returned_objective', ctx.eq(prob.sum_squared(), fun))
    ctx.oblige('not_worse_than_start', ctx.le(fun, f0))
    ctx.observe('fun', fun)
    oz.undo()
    after = snapshot(ctx, o)
    frame(ctx, before, after, set(), tag='_undo')


@harness('C14', 'H2_merit', funcs=FUNCS, stubs=STUBS[1:], cases=lambda tier: [dict()],
         bounds='two operands (uninterpreted values) with symbolic targets and weights on a K=2 lens',
         doc='merit function = sum over operands of (weight*(value-target))^2 on the current lens; fun_array / rss consistent')
def h2_merit(ctx):
    o, sp = make_lens(ctx, ('standard', 'standard'), 'inf', None, stops=1)
    prob, (tA, tB, wA, wB) = problem(ctx, o, [])
    vA, vB = prob.operands[0].value, prob.operands[1].value
    want = (wA * (vA - tA)) * (wA * (vA - tA)) + (wB * (vB - tB)) * (wB * (vB - tB))
    ctx.oblige('sum_squared', ctx.eq(prob.sum_squared(), want))
    fa = ctx.vals(prob.fun_array())
    ctx.oblige('fun_array_0', ctx.eq(fa[0], (wA * (vA - tA)) * (wA * (vA - tA))))
    ctx.oblige('fun_array_1', ctx.eq(fa[1], (wB * (vB - tB)) * (wB * (vB - tB))))
    ctx.oblige('delta', ctx.eq(prob.operands[0].delta(), vA - tA))
    r = ctx.val(prob.rss())
    ctx.oblige('rss_squared', ctx.eq(r * r, want))
    ctx.oblige('rss_nonneg', ctx.le(0.0, r))
    # current lens: after an edit the merit uses the new prescription
    v = ctx.real('newR', ne=0)
    o.set_radius(v, 1)
    vA2 = prob.operands[0].value
    sg = o.surface_group
    ctx.oblige('evaluated_on_current_lens', ctx.eq(vA2, ctx.uf('ufA', v, ctx.val(sg.radii[2]), ctx.val(sg.positions[2]),
                                                                 ctx.val(sg.positions[3]), ctx.val(o.n(0.55)[1]))))
    ctx.observe('merit', prob.sum_squared())


def cases_handles(tier):
    out = []
    for vt, kw in (('radius', {}), ('conic', {}), ('thickness', {}), ('index', dict(wavelength=0.55)),
                   ('asphere_coeff', dict(coeff_number=1)), ('tilt', dict(axis='x')), ('decenter', dict(axis='y'))):
        for sc in (True, False):
            out.append(dict(vt=vt, kw=kw, scaled=sc))
    return out


@harness('C14', 'H3_variable_handles', cases=cases_handles, funcs=FUNCS,
         bounds='every variable type x {scaled, unscaled}; symbolic bounds and value on a K=2 lens (surface 2 an even asphere)',
         doc='a variable is a faithful handle: set-then-read identity, and its bounds are in the units of its value: updating the '
             'variable to a bound puts the physical parameter exactly at min_val / max_val')
def h3_handles(ctx, vt, kw, scaled):
    from optiland.optimization.variable import Variable
    o, sp = make_lens(ctx, ('standard', 'even_asphere'), 'inf', None, stops=1)
    lo = ctx.real('lo', ne=0) if vt == 'radius' else (ctx.real('lo', lo=1.0, hi=2.0) if vt == 'index' else ctx.real('lo'))
    hi = lo + ctx.real('width', lo=0.1, hi=5.0)
    if vt == 'radius':
        ctx.assume(ctx.Not(hi == 0))
    var = Variable(o, vt, min_val=lo, max_val=hi, apply_scaling=scaled, surface_number=2 if vt == 'asphere_coeff' else 1, **kw)
    v = ctx.real('v', ne=0) if vt == 'radius' else ctx.real('v')
    var.update(v)
    ctx.oblige('set_then_read', ctx.eq(var.value, v))
    b = var.bounds

    def physical():
        sg = o.surface_group
        s1 = sg.surfaces[1]
        return {'radius': lambda: sg.radii[1], 'conic': lambda: sg.conic[1], 'thickness': lambda: sg.get_thickness(1),
                'index': lambda: o.n(0.55)[1], 'asphere_coeff': lambda: sg.surfaces[2].geometry.c[1],
                'tilt': lambda: s1.geometry.cs.rx, 'decenter': lambda: s1.geometry.cs.y}[vt]()
    var.update(b[0])
    ctx.oblige('lower_bound_is_min_val', ctx.eq(physical(), lo))
    var.update(b[1])
    ctx.oblige('upper_bound_is_max_val', ctx.eq(physical(), hi))
    ctx.oblige('bounds_ordered', ctx.le(b[0], b[1]))
    ctx.observe('b0', b[0])
    # unbounded variable reports no bounds
    var2 = Variable(o, vt, apply_scaling=scaled, surface_number=2 if vt == 'asphere_coeff' else 1, **kw)
    ctx.oblige('no_bounds', var2.bounds == (None, None))
    # a bound of exactly zero is still a bound
    if vt in ('thickness', 'conic', 'tilt', 'decenter', 'asphere_coeff'):
        var3 = Variable(o, vt, min_val=0.0, max_val=0.0 + 1.0, apply_scaling=scaled, surface_number=2 if vt == 'asphere_coeff' else 1, **kw)
        b3 = var3.bounds
        ctx.oblige('zero_bound_kept', b3[0] is not None and b3[1] is not None)
        if b3[0] is not None:
            var3.update(b3[0])
            ctx.oblige('zero_bound_value', ctx.eq(physical(), 0.0))


@harness('C14', 'H4_pickups_solves', funcs=FUNCS, stubs=STUBS,
         cases=lambda tier: [dict(opt=o_, what=w) for o_ in ('generic', 'least_squares') for w in ('pickup', 'solve', 'solve_nan')],
         bounds='pickup: K=3 lens, R1, R2, n1, pickup scale/offset symbolic, 2 further evaluations; solve: K=1 singlet surface with '
                'symbolic R, n, t and solve height; both: K=2 with a radius pickup; 1 further evaluation',
         doc='on return from optimize() pickups and solves are satisfied for the returned solution; undo() restores the lens including '
             'pickup targets and solved positions')
def h4_pickups_solves(ctx, opt, what):
    if what == 'pickup':
        kinds = ('standard', 'standard', 'standard')
        conc = dict(k1=0.0, k2=0.0, k3=0.0, t1=2.0, t2=1.0, n2=1.0, R3=-40.0, t3=30.0, n3=1.0, epd=4.0)
    elif what in ('solve', 'solve_nan'):
        kinds = ('standard',)
        conc = dict(k1=0.0, epd=4.0)
    else:
        kinds = ('standard', 'standard')
        conc = dict(k1=0.0, k2=0.0, epd=4.0, t1=2.0, n2=1.0)
    o, sp = make_lens(ctx, kinds, 'inf', None, stops=1, concrete=conc)
    K = sp['K']
    sg = o.surface_group
    if what == 'solve':
        ctx.assume(sp['n'][0] >= 1.1)     # a refracting surface: every trial lens focuses, the solve stays defined
    h = ctx.real('h', lo=-1.0, hi=1.0)
    sc, off = ctx.real('scale', ne=0), ctx.real('offset')
    if what in ('pickup', 'both'):
        o.pickups.add(1, 'radius', 2, scale=sc, offset=off)
    if what in ('solve', 'both', 'solve_nan'):
        o.solves.add('marginal_ray_height', K + 1, height=h)
    o.update()
    log = []
    install(ctx, 2 if what == 'pickup' else 1, log)
    prob, _ = problem(ctx, o, [dict(variable_type='radius', surface_number=1)])
    before = snapshot(ctx, o)
    if what != 'pickup' and not all(ctx.finite(v) for k_, v in before.items() if k_.startswith('z') and k_ != 'z0'):
        ctx.assume(False)     # start from a lens on which the solve is defined
    oz, res = run_optimizer(opt, prob)
    x = ctx.vals(res.x)[0]
    Rnew = (x + 1.0) * 100.0
    ctx.oblige('lens_at_returned_solution', ctx.eq(sg.radii[1], Rnew))
    if what in ('pickup', 'both'):
        ctx.oblige('pickup_satisfied', ctx.eq(sg.radii[2], sc * Rnew + off))
    nonfinite_seen = not all(ctx.finite(v) for e in log for v in e['values'])
    if what in ('solve', 'both', 'solve_nan'):
        ya, ua = o.paraxial.marginal_ray()
        got = ctx.val(ya[K + 1])
        if ctx.finite(got):
            ctx.oblige('solve_satisfied', ctx.eq(got, h))
        else:
            # F17 (known finding): solves are applied as relative shifts, so one non-finite evaluation (afocal trial lens)
            # leaves the solved position NaN for good
            ctx.oblige('solve_lost_after_nonfinite_evaluation', False)
    ctx.observe('R1', sg.radii[1])
    oz.undo()
    after = snapshot(ctx, o)
    if all(ctx.finite(v) for k_, v in after.items() if k_.startswith('z') and k_ != 'z0'):
        frame(ctx, before, after, set(), tag='_undo')
    else:
        ctx.oblige('undo_lost_after_nonfinite_evaluation', False)


@harness('C14', 'H5_sequences', funcs=FUNCS, stubs=STUBS, cases=lambda tier: [dict(seq=('opt', 'undo', 'opt')), dict(seq=('opt', 'opt', 'undo', 'undo'))],
         bounds='sequences optimise / undo of length <= 4 on one problem (stub with 1 further evaluation per run)',
         doc='undo() after n optimisations steps back one run at a time to the exact earlier prescriptions')
def h5_sequences(ctx, seq):
    o, sp = make_lens(ctx, ('standard', 'standard'), 'inf', None, stops=1)
    log = []
    install(ctx, 1, log)
    # fresh symbols per run: pick() names are p{i}_{j}; make them unique per run through a counter
    import optiland.optimization.optimization as om
    runs = [0]
    base_stub = om.optimize

    def stub_for_run():
        k = runs[0]
        runs[0] += 1
        lg = []
        st = make_stub_named(ctx, 1, lg, f'r{k}')
        om.optimize = st
    prob, _ = problem(ctx, o, [dict(variable_type='radius', surface_number=1), dict(variable_type='thickness', surface_number=1)])
    from optiland.optimization import OptimizerGeneric
    oz = OptimizerGeneric(prob)
    states = [snapshot(ctx, o)]
    for step in seq:
        if step == 'opt':
            stub_for_run()
            oz.optimize(disp=False)
            states.append(snapshot(ctx, o))
        else:
            oz.undo()
            states.pop()
            frame(ctx, states[-1], snapshot(ctx, o), set(), tag=f'_undo{len(states)}')
    ctx.observe('R1', o.surface_group.radii[1])


def _undo_target(states):
    return states[-1]


def make_stub_named(ctx, npts, log, prefix):
    base = make_stub(ctx, npts, log)
    real = ctx.real

    class Named:
        pass

    def wrap(fn):
        def g(*a, **k):
            old = ctx.real
            ctx.real = lambda name, **kw: old(f'{prefix}_{name}', **kw)
            try:
                return fn(*a, **k)
            finally:
                ctx.real = old
        return staticmethod(g)
    for nm in ('minimize', 'least_squares', 'dual_annealing', 'differential_evolution'):
        setattr(Named, nm, wrap(getattr(base, nm)))
    return Named


@harness('C14', 'H3b_object_distance_variable', funcs=FUNCS, cases=lambda tier: [dict(scaled=True), dict(scaled=False)],
         bounds='K=2 lens with a FINITE object; thickness variable on surface 0 (the object distance), symbolic value',
         doc='the object distance is a variable like any other thickness: set-then-read identity, the object vertex moves to -value, the lens '
             'vertices stay where they are')
def h3b_object_distance(ctx, scaled):
    from optiland.optimization.variable import Variable
    o, sp = make_lens(ctx, ('standard', 'standard'), 'finite', None, stops=1)
    before = snapshot(ctx, o)
    var = Variable(o, 'thickness', apply_scaling=scaled, surface_number=0)
    v = ctx.real('v')
    var.update(v)
    ctx.oblige('set_then_read', ctx.eq(var.value, v))
    t0 = (v + 1.0) * 10.0 if scaled else v          # documented scaling of thickness variables: value = t / 10 - 1
    ctx.oblige('thickness_read_back', ctx.eq(o.surface_group.get_thickness(0), t0))
    after = snapshot(ctx, o)
    ctx.oblige('object_vertex_moved', ctx.eq(after['z0'], -t0))
    frame(ctx, before, after, {'z0'})
    ctx.observe('z0', after['z0'])
