"""C08 - Seidel and first-order chromatic terms equal the classical surface formulas (DESIGN §6 C08)."""
import numpy as np

from symopt.harness import harness
from checks.C04 import Lens

FUNCS = ['optiland.aberrations.Aberrations._precalculations', 'optiland.aberrations.Aberrations._TSC_term',
         'optiland.aberrations.Aberrations._CC_term', 'optiland.aberrations.Aberrations._TAC_term',
         'optiland.aberrations.Aberrations._TPC_term', 'optiland.aberrations.Aberrations._DC_term',
         'optiland.aberrations.Aberrations._TAchC_term', 'optiland.aberrations.Aberrations._TchC_term',
         'optiland.aberrations.Aberrations._sum_seidels', 'optiland.aberrations.Aberrations.third_order',
         'optiland.aberrations.Aberrations.seidels', 'optiland.optimization.operand.aberration.AberrationOperand']


def welford(ctx, o, K, dn=None):
    """Welford's surface contributions from the lens's curvatures, indices and the paraxial marginal/chief rays.
    Returns per-surface lists (S1..S5, C1, C2) and H."""
    px = o.paraxial
    ya, ua = px.marginal_ray()
    yb, ub = px.chief_ray()
    n = [ctx.val(v) for v in o.n()]
    R = o.surface_group.radii
    ya, ua, yb, ub = ([ctx.val(v) for v in a] for a in (ya, ua, yb, ub))
    H = n[1] * (yb[1] * ua[1] - ya[1] * ub[1])
    S = [[], [], [], [], []]
    C1, C2 = [], []
    for k in range(1, K + 1):
        c = 0.0 if not ctx.finite(R[k]) else 1 / ctx.val(R[k])
        n0, n1 = n[k - 1], n[k]
        A = n0 * (ya[k] * c + ua[k - 1])
        Ab = n0 * (yb[k] * c + ub[k - 1])
        dun = ua[k] / n1 - ua[k - 1] / n0
        dubn = ub[k] / n1 - ub[k - 1] / n0
        d1n = 1 / n1 - 1 / n0
        S[0].append(-A * A * ya[k] * dun)
        S[1].append(-A * Ab * ya[k] * dun)
        S[2].append(-Ab * Ab * ya[k] * dun)
        S[3].append(-H * H * c * d1n)
        # distortion in the form that needs no division by A:  S5 = -Ab [ Ab^2 yb-free form ]  (Welford 8.50, second form)
        S[4].append(-Ab * (Ab * yb[k] * dubn * 0 + 0) if False else
                    -(Ab * Ab * Ab * ya[k] * dun + Ab * H * H * c * d1n) / A if bool(ctx.Not(A == 0)) else None)
        if dn is not None:
            ddn = dn[k] / n1 - dn[k - 1] / n0
            C1.append(A * ya[k] * ddn)
            C2.append(Ab * ya[k] * ddn)
    return S, C1, C2, H, (n, ya, ua, yb, ub)


def cases_seidel(tier):
    out = [dict(K=1, stop=1, obj='inf'), dict(K=2, stop=1, obj='inf'), dict(K=2, stop=2, obj='inf'), dict(K=2, stop=1, obj='finite'),
           # the image lies in the last glass while the image surface itself keeps its default post-material (air)
           dict(K=1, stop=1, obj='inf', image_air=True), dict(K=2, stop=1, obj='finite', image_air=True)]
    if tier == 'thorough':
        out += [dict(K=3, stop=2, obj='inf'), dict(K=2, stop=2, obj='finite'), dict(K=3, stop=1, obj='finite')]
    return out


SIGN = dict(TSC=1, CC=1, TAC=1, TPC=1, DC=1)


@harness('C08', 'H1_seidel_terms', cases=cases_seidel, funcs=FUNCS,
         bounds='spherical lenses K=1..2 (thorough 3), all R, t, n symbolic, stop at surface 1 or 2, infinite or finite object, EPD aperture, '
                'angular / height field with symbolic maximum',
         doc='every per-surface third-order term equals Welford\'s surface contribution divided by 2 n\'u\' (library sign convention: the '
             'five sums are -1 x Welford\'s S_I..S_V); the sums are the sums of the surface terms')
def h1_seidel(ctx, K, stop, obj, image_air=False):
    L = Lens(ctx, K, (), stop, obj, tpos=True)
    ft = 'angle' if obj == 'inf' else 'object_height'
    if image_air:
        from checks.common import build_optic
        o = build_optic(ctx, L.surfs(), obj_t=L.t0, image_n=None, aperture=('EPD', ctx.real('epd', lo=0.1, hi=20.0)), field_type=ft,
                        fields=(ctx.real('fy', lo=0.1, hi=20.0),))
    else:
        o = L.build(aperture=('EPD', ctx.real('epd', lo=0.1, hi=20.0)), field_type=ft, fields=(ctx.real('fy', lo=0.1, hi=20.0),))
    S, C1, C2, H, (n, ya, ua, yb, ub) = welford(ctx, o, K)
    den = 2 * n[-1] * ua[-1]
    if not ctx.finite(den) or bool(den == 0) or bool(H == 0):
        ctx.note('degenerate (afocal image space or zero invariant): no obligation')
        return
    ab = o.aberrations
    TSC, SC, CC, TCC, TAC, AC, TPC, PC, DC, TAchC, LchC, TchC, Ssum = ab.third_order()
    fam = dict(TSC=(TSC, S[0]), CC=(CC, S[1]), TAC=(TAC, S[2]), TPC=(TPC, S[3]), DC=(DC, S[4]))
    for nm, (lib, wel) in fam.items():
        lib = ctx.vals(lib)
        for k in range(K):
            if wel[k] is None or not ctx.finite(lib[k]):
                continue
            ctx.oblige(f'{nm}_{k + 1}', ctx.eq(lib[k], wel[k] / den))
    Ssum = ctx.vals(Ssum)
    for j, nm in enumerate(('TSC', 'CC', 'TAC', 'TPC', 'DC')):
        lib = ctx.vals(fam[nm][0])
        if all(ctx.finite(v) for v in lib) and ctx.finite(Ssum[j]):
            tot = lib[0]
            for v in lib[1:]:
                tot = tot + v
            ctx.oblige(f'S{j + 1}_is_sum_of_terms', ctx.eq(Ssum[j], -tot * den))
            if all(w is not None for w in fam[nm][1]):
                wt = fam[nm][1][0]
                for v in fam[nm][1][1:]:
                    wt = wt + v
                ctx.oblige(f'S{j + 1}_is_minus_welford', ctx.eq(Ssum[j], -wt))
    ctx.observe('S1', Ssum[0])


@harness('C08', 'H2_identities', funcs=FUNCS, cases=lambda tier: [dict(stop=1), dict(stop=2), dict(stop=1, obj='finite')] + ([dict(stop=2, obj='finite')] if tier == 'thorough' else []),
         bounds='K=2 spherical lens, symbolic numbers, object at infinity (angular field) or at a symbolic finite distance (object-height field)',
         doc='tangential coma = 3 x sagittal coma; each longitudinal term = transverse term / (- final marginal slope); every accessor '
             'equals the corresponding entry of third_order(); seidels() = last entry of third_order(); operand wrappers agree')
def h2_identities(ctx, stop, obj='inf'):
    from optiland.optimization.operand.aberration import AberrationOperand as AO
    L = Lens(ctx, 2, (), stop, obj, tpos=True)
    o = L.build(aperture=('EPD', ctx.real('epd', lo=0.1, hi=20.0)), field_type='angle' if obj == 'inf' else 'object_height',
                fields=(ctx.real('fy', lo=0.1, hi=20.0),))
    ab = o.aberrations
    names = ('TSC', 'SC', 'CC', 'TCC', 'TAC', 'AC', 'TPC', 'PC', 'DC', 'TAchC', 'LchC', 'TchC')
    to = ab.third_order()
    ya, ua = o.paraxial.marginal_ray()
    uK = ctx.val(ua[-1])
    vals = {nm: ctx.vals(to[i]) for i, nm in enumerate(names)}
    if not all(ctx.finite(v) for nm in names for v in vals[nm]):
        ctx.note('degenerate lens: no obligation')
        return
    for k in range(2):
        ctx.oblige(f'TCC_is_3CC_{k}', ctx.eq(vals['TCC'][k], 3 * vals['CC'][k]))
        for lo, tr in (('SC', 'TSC'), ('AC', 'TAC'), ('PC', 'TPC'), ('LchC', 'TAchC')):
            ctx.oblige(f'{lo}_{k}', ctx.eq(vals[lo][k] * (-uK), vals[tr][k]))
    for nm in names:
        acc = ctx.vals(getattr(ab, nm)())
        for k in range(2):
            ctx.oblige(f'accessor_{nm}_{k}', ctx.eq(acc[k], vals[nm][k]))
            ctx.oblige(f'operand_{nm}_{k}', ctx.eq(getattr(AO, nm)(o, k), vals[nm][k]))
        ctx.oblige(f'operand_{nm}_sum', ctx.eq(getattr(AO, nm + '_sum')(o), vals[nm][0] + vals[nm][1]))
    S1 = ctx.vals(ab.seidels())
    S2 = ctx.vals(to[-1])
    for j in range(5):
        ctx.oblige(f'seidels_{j}', ctx.eq(S1[j], S2[j]))
        ctx.oblige(f'operand_seidel_{j}', ctx.eq(AO.seidels(o, j + 1), S2[j]))
    ctx.observe('S1', S1[0])


@harness('C08', 'H3_stop_shift', funcs=FUNCS, cases=lambda tier: [dict()],
         bounds='K=2 spherical lens with symbolic numbers, the same lens with the stop at surface 1 and at surface 2',
         doc='the spherical-aberration and Petzval sums do not depend on where the stop is')
def h3_stop_shift(ctx):
    L1 = Lens(ctx, 2, (), 1, 'inf', tpos=True)
    epd, fy = ctx.real('epd', lo=0.1, hi=20.0), ctx.real('fy', lo=0.1, hi=20.0)
    o1 = L1.build(aperture=('EPD', epd), fields=(fy,))
    L2 = Lens.__new__(Lens)
    L2.__dict__.update(L1.__dict__)
    L2.stop = 2
    o2 = L2.build(aperture=('EPD', epd), fields=(fy,))
    Sa, Sb = ctx.vals(o1.aberrations.seidels()), ctx.vals(o2.aberrations.seidels())
    if all(ctx.finite(v) for v in Sa + Sb):
        ctx.oblige('S1_independent_of_stop', ctx.eq(Sa[0], Sb[0]))
        ctx.oblige('S4_independent_of_stop', ctx.eq(Sa[3], Sb[3]))
        ctx.observe('S1', Sa[0])


@harness('C08', 'H4_colour', funcs=FUNCS, cases=lambda tier: [dict(K=1, edit=False), dict(K=2, edit=False), dict(K=1, edit=True)],
         bounds='K=1..2 lens whose first medium is a model glass with symbolic (n_d, V_d) (dispersion n_F - n_C symbolic), stop at surface 1; '
                'in one case the glass is replaced through set_index after a first evaluation',
         doc='first-order axial and lateral colour per surface = A y Delta(dn/n) / (n\'u\') resp. A-bar y Delta(dn/n) / (n\'u\') with the '
             'current media (classical surface contributions, marginal height AT the surface); re-evaluated after a medium is changed')
def h4_colour(ctx, K, edit):
    from optiland.materials import AbbeMaterial
    from checks.common import build_optic
    nd, vd = ctx.real('nd', lo=1.45, hi=1.9), ctx.real('vd', lo=25.0, hi=70.0)
    R = [ctx.real(f'R{k}', ne=0) for k in range(1, K + 1)]
    t = [ctx.real(f't{k}', lo=0.1, hi=30.0) for k in range(1, K + 1)]
    from optiland.optic import Optic
    o = Optic()
    o.add_surface(index=0, thickness=np.inf)
    o.add_surface(index=1, radius=R[0], thickness=t[0], material=AbbeMaterial(nd, vd), is_stop=True)
    if K == 2:
        o.add_surface(index=2, radius=R[1], thickness=t[1])
    o.add_surface(index=K + 1)
    o.set_aperture('EPD', ctx.real('epd', lo=0.1, hi=20.0))
    o.set_field_type('angle')
    o.add_field(y=ctx.real('fy', lo=0.1, hi=20.0))
    o.add_wavelength(0.5875618, is_primary=True)
    if edit:
        o.aberrations.third_order()
        o.set_index(ctx.real('nnew', lo=1.2, hi=2.5), 1)
    dn = [ctx.val(a) - ctx.val(b) for a, b in zip(o.n(0.4861), o.n(0.6563))]
    S, C1, C2, H, (n, ya, ua, yb, ub) = welford(ctx, o, K, dn)
    den = n[-1] * ua[-1]
    if not ctx.finite(den) or bool(den == 0):
        return
    TA = ctx.vals(o.aberrations.TAchC())
    TL = ctx.vals(o.aberrations.TchC())
    for k in range(K):
        if ctx.finite(TA[k]):
            ctx.oblige(f'TAchC_{k + 1}', ctx.eq(TA[k], C1[k] / den))
        if ctx.finite(TL[k]):
            ctx.oblige(f'TchC_{k + 1}', ctx.eq(TL[k], C2[k] / den))
    if edit:
        ctx.oblige('no_colour_without_dispersion', ctx.And(ctx.eq(TA[0], 0.0), ctx.eq(TL[0], 0.0)))
    ctx.observe('TAchC1', TA[0])


@harness('C08', 'H5_axial_field_only', funcs=FUNCS, cases=lambda tier: [dict(K=1), dict(K=2)],
         bounds='spherical lenses K=1..2, all R, t, n symbolic, stop first, infinite object, EPD aperture, the ONLY field is the axial one '
                '(Lagrange invariant 0)',
         doc='spherical aberration does not depend on the field: with only the axial field defined the per-surface transverse spherical term is '
             'still Welford S_I / (2 n\'u\') (and coma, astigmatism, Petzval, distortion vanish)')
def h5_axial(ctx, K):
    L = Lens(ctx, K, (), 1, 'inf', tpos=True)
    o = L.build(aperture=('EPD', ctx.real('epd', lo=0.1, hi=20.0)), field_type='angle', fields=(0.0,))
    S, C1, C2, H, (n, ya, ua, yb, ub) = welford(ctx, o, K)
    den = 2 * n[-1] * ua[-1]
    if not ctx.finite(den) or bool(den == 0):
        return
    TSC, SC, CC, TCC, TAC, AC, TPC, PC, DC, TAchC, LchC, TchC, Ssum = o.aberrations.third_order()
    for k in range(K):
        v = ctx.vals(TSC)[k]
        ctx.oblige(f'TSC_{k + 1}_finite', ctx.finite(v))
        if ctx.finite(v):
            ctx.oblige(f'TSC_{k + 1}', ctx.eq(v, S[0][k] / den))
        for nm, arr in (('CC', CC), ('TAC', TAC), ('TPC', TPC), ('DC', DC)):
            w = ctx.vals(arr)[k]
            if ctx.finite(w):
                ctx.oblige(f'{nm}_{k + 1}_vanishes', ctx.eq(w, 0.0))
    ctx.observe('den', den)


def sym_setup():
    from symopt import jet
    jet.set_order(5)      # y(rho) to order rho^3 with two spare orders (quotients of series that vanish at rho = 0 lose accuracy)


@harness('C08', 'H6_small_aperture_limit', funcs=FUNCS + ['optiland.optic.Optic.trace_generic', 'optiland.surfaces.standard_surface.Surface._trace_real',
                                                          'optiland.geometries.standard.StandardGeometry.distance', 'optiland.rays.real_rays.RealRays.refract'],
         cases=lambda tier: [dict(K=1), dict(K=2)], timeout=600,
         bounds='spherical lens K=1..2, R, t, n, EPD symbolic, stop first, infinite object, image surface moved to the paraxial focus by '
                'image_solve(), real image (focus behind the last surface); the REAL ray with pupil coordinate rho traced through the real code as a power series in rho (order 5)',
         doc='the third-order transverse spherical term predicts the real marginal-ray error in the small-aperture limit: the height of the real '
             'axial ray on the paraxial image plane is  (sum of the TSC terms) rho^3 + O(rho^4), with vanishing rho^0, rho^1, rho^2 coefficients')
def h6_limit(ctx, K):
    from checks.C05 import series, oblige_series, EPS
    L = Lens(ctx, K, (), 1, 'inf', tpos=True)
    for t_ in L.t:
        ctx.assume(t_ > 0)
    o = L.build(aperture=('EPD', ctx.real('epd', lo=0.1, hi=10.0)), field_type='angle', fields=(0.0, 5.0))
    o.image_solve()
    pos = o.surface_group.positions
    ctx.assume(ctx.val(pos[-1]) > ctx.val(pos[-2]))        # a real image: the paraxial focus lies behind the last surface
    tsc = ctx.vals(o.aberrations.TSC())
    if not all(ctx.finite(v) for v in tsc):
        return
    tot = tsc[0]
    for v in tsc[1:]:
        tot = tot + v
    RHO = 1e-3          # concrete replay: pupil coordinate at which y / rho^3 is compared with the sum (relative error O(rho^2))
    if ctx.sym:
        from symopt.facade import oarr
        arrP = oarr([series(ctx, 0.0, 1.0)])
    else:
        arrP = np.array([RHO])
    o.trace_generic(0.0, 0.0, ctx.arr(0.0), arrP, 0.55)
    y_img = ctx.val(o.surface_group.y[-1])
    if ctx.sym:
        oblige_series(ctx, 'image_height', y_img, [0.0, 0.0, 0.0, tot])
    else:
        # concrete replay at rho = EPS_C: y / rho^3 -> sum TSC
        ctx.oblige('image_height:series', abs(float(y_img) - float(tot) * RHO ** 3) <= 2e-2 * abs(float(tot)) * RHO ** 3 + 1e-14)
    ctx.observe('tsc', tot)
