"""C13 - tracing and analysis are repeatable and free of side effects (DESIGN §6 C13)."""
import copy

import numpy as np

from symopt.harness import harness
from checks.common import ideal
from checks.C01 import make_lens, snapshot, frame
from checks.C04 import Lens

FUNCS = ['optiland.optic.Optic.trace', 'optiland.optic.Optic.trace_generic', 'optiland.surfaces.surface_group.SurfaceGroup.trace',
         'optiland.surfaces.surface_group.SurfaceGroup.reset', 'optiland.surfaces.standard_surface.Surface.reset',
         'optiland.surfaces.surface_group.SurfaceGroup.inverted', 'optiland.rays.base.BaseRays._process_input',
         'optiland.paraxial.Paraxial', 'optiland.aberrations.Aberrations', 'optiland.analysis.spot_diagram.SpotDiagram',
         'optiland.geometries.newton_raphson.NewtonRaphsonGeometry.distance', 'optiland.wavefront.Wavefront']


def plane_lens_numbers(ctx, vig=True):
    d = dict(n1=ctx.real('n1', lo=1.0, hi=4.0), t1=ctx.real('t1', lo=0.1, hi=20.0), t2=ctx.real('t2', lo=0.1, hi=50.0),
             epd=ctx.real('epd', lo=0.1, hi=10.0), fy=ctx.real('fy', lo=0.1, hi=30.0))
    if vig:
        d.update(vx=ctx.real('vx', lo=0.0, hi=0.9), vy=ctx.real('vy', lo=0.0, hi=0.9))
    return d


def plane_lens(ctx, vig=True, numbers=None, extra_field=False):
    """2 plane surfaces (glass slab) + image, two fields (the second with symbolic vignetting factors)"""
    from optiland.optic import Optic
    d = numbers or plane_lens_numbers(ctx, vig)
    o = Optic()
    o.add_surface(index=0, thickness=np.inf)
    o.add_surface(index=1, thickness=d['t1'], material=ideal(d['n1']), is_stop=True)
    o.add_surface(index=2, thickness=d['t2'])
    o.add_surface(index=3)
    o.set_aperture('EPD', d['epd'])
    o.set_field_type('angle')
    o.add_field(y=0.0)
    if 'vx' in d:
        o.add_field(y=d['fy'], vx=d['vx'], vy=d['vy'])
    else:
        o.add_field(y=d['fy'])
    if extra_field:
        # a third field declared OUT of ascending order (between the two others)
        o.add_field(y=d['fy'] * 0.5)
    o.add_wavelength(0.55, is_primary=True)
    return o


def records(ctx, o):
    sg = o.surface_group
    out = {}
    for q in ('x', 'y', 'z', 'L', 'M', 'N', 'intensity', 'opd'):
        arr = getattr(sg, q)
        for k in range(arr.shape[0]):
            for i, v in enumerate(ctx.vals(arr[k])):
                out[f'{q}{k}_{i}'] = v
    return out


def same_records(ctx, a, b, tag):
    ctx.oblige(f'{tag}:same_keys', set(a) == set(b))
    for k in a:
        if k in b:
            av, bv = a[k], b[k]
            if ctx.finite(av) and ctx.finite(bv):
                ctx.oblige(f'{tag}:{k}', ctx.eq(av, bv))
            else:
                ctx.oblige(f'{tag}:{k}', (not ctx.finite(av)) and (not ctx.finite(bv)))


@harness('C13', 'H1_caller_arrays', funcs=FUNCS, cases=lambda tier: [dict(entry='trace_generic'), dict(entry='trace')],
         bounds='plane-surface lens with symbolic vignetting factors; caller passes 1-element arrays Hx, Hy, Px, Py (trace: a Distribution '
                'object with arrays x, y)',
         doc='arrays passed in by the caller hold the same values after the call')
def h1_caller_arrays(ctx, entry):
    o = plane_lens(ctx)
    Hy = ctx.real('Hy', lo=-1.0, hi=1.0)
    px, py = ctx.real('Px', lo=-1.0, hi=1.0), ctx.real('Py', lo=-1.0, hi=1.0)
    if entry == 'trace_generic':
        aHx, aHy, aPx, aPy = ctx.arr(0.0), ctx.arr(Hy), ctx.arr(px), ctx.arr(py)
        o.trace_generic(aHx, aHy, aPx, aPy, 0.55)
        for nm, arr, want in (('Hx', aHx, 0.0), ('Hy', aHy, Hy), ('Px', aPx, px), ('Py', aPy, py)):
            ctx.oblige(f'{nm}_unchanged', ctx.eq(arr, want))
    else:
        class Dist:
            pass
        d = Dist()
        d.x, d.y = ctx.arr(px), ctx.arr(py)
        o.trace(0.0, Hy, 0.55, distribution=d)
        ctx.oblige('dist_x_unchanged', ctx.eq(d.x, px))
        ctx.oblige('dist_y_unchanged', ctx.eq(d.y, py))
    ctx.observe('y_img', o.surface_group.y[-1])


def queries(ctx, o, which):
    px = o.paraxial
    if which == 'paraxial':
        return [px.f1(), px.f2(), px.F1(), px.F2(), px.EPL(), px.XPL(), px.EPD(), px.XPD(), px.FNO(), px.invariant()] + \
            ctx.vals(px.marginal_ray()[0]) + ctx.vals(px.chief_ray()[1])
    if which == 'aberrations':
        return ctx.vals(o.aberrations.seidels())
    if which == 'trace_generic':
        r = o.trace_generic(0.0, 0.5, 0.3, -0.4, 0.55)
        return [ctx.val(v) for v in (r.x, r.y, r.z, r.L, r.M, r.N, r.i, r.opd)]
    if which == 'trace':
        r = o.trace(0.0, 1.0, 0.55, num_rays=3, distribution='line_y')
        return ctx.vals(r.y) + ctx.vals(r.opd)
    if which == 'paraxial_trace':
        px.trace(0.5, 0.7, 0.55)
        return ctx.vals(o.surface_group.y) + ctx.vals(o.surface_group.u)
    raise ValueError(which)


def cases_queries(tier):
    qs = ('paraxial', 'aberrations', 'trace_generic', 'trace', 'paraxial_trace')
    return [dict(q=q) for q in qs]


@harness('C13', 'H2_no_side_effects', cases=cases_queries, funcs=FUNCS,
         bounds='K=2 lens (symbolic radii, thicknesses, index) for paraxial/aberration queries, plane-surface slab with three vignetted '
                'fields declared out of ascending order for the ray-trace queries; each query family once; prescription dictionary and snapshot before/after',
         doc='queries (paraxial, aberrations, trace, trace_generic, paraxial trace) do not change the prescription, fields, wavelengths '
             'or aperture; repeating the query returns the same values')
def h2_no_side_effects(ctx, q):
    if q in ('trace', 'trace_generic'):
        # (freedom from side effects does not depend on the surface shapes); the field list is not in ascending order
        o = plane_lens(ctx, vig=True, extra_field=True)
    else:
        L = Lens(ctx, 2, (), 1, 'inf', tpos=True)
        o = L.build(aperture=('EPD', ctx.real('epd', lo=0.1, hi=10.0)), fields=(0.0, ctx.real('fy', lo=0.1, hi=20.0)))
    before = snapshot(ctx, o)
    d0 = o.to_dict()
    r1 = queries(ctx, o, q)
    after = snapshot(ctx, o)
    frame(ctx, before, after, set())
    d1 = o.to_dict()
    ctx.oblige('to_dict_same_structure', _same_dict(ctx, d0, d1))
    r2 = queries(ctx, o, q)
    ctx.oblige('same_length', len(r1) == len(r2))
    for i, (a, b) in enumerate(zip(r1, r2)):
        if ctx.finite(a) and ctx.finite(b):
            ctx.oblige(f'repeat_{i}', ctx.eq(a, b))
        else:
            ctx.oblige(f'repeat_{i}', (not ctx.finite(a)) and (not ctx.finite(b)))
    if r1 and ctx.finite(r1[0]):
        ctx.observe('r0', r1[0])


def _same_dict(ctx, a, b):
    if isinstance(a, dict):
        return isinstance(b, dict) and set(a) == set(b) and all(bool(_same_dict(ctx, a[k], b[k])) for k in a)
    if isinstance(a, (list, tuple)):
        return isinstance(b, (list, tuple)) and len(a) == len(b) and all(bool(_same_dict(ctx, x, y)) for x, y in zip(a, b))
    if isinstance(a, np.ndarray) or isinstance(b, np.ndarray):
        av, bv = ctx.vals(a), ctx.vals(b)
        return len(av) == len(bv) and all(bool(_same_dict(ctx, x, y)) for x, y in zip(av, bv))
    if isinstance(a, (str, bool, type(None))) or isinstance(b, (str, bool, type(None))):
        return a == b
    if not (ctx.finite(a) and ctx.finite(b)):
        return (not ctx.finite(a)) and (not ctx.finite(b))
    r = ctx.eq(a, b)
    return bool(r)    # forks only if the two terms can differ; both branches are then explored and the False one is reported


@harness('C13', 'H3_history_independence', funcs=FUNCS,
         cases=lambda tier: [dict(seq=s) for s in (('trace1', 'trace0'), ('trace0', 'trace1'), ('trace0', 'generic'),
                                                   ('generic', 'trace1'), ('paraxial', 'generic'), ('trace1', 'paraxial_then_trace0'))],
         bounds='plane-surface lens with two fields carrying different symbolic vignetting factors; on one lens call A then B, on an '
                'identical fresh lens only B; calls from {trace(field 0), trace(field 1), trace_generic, paraxial queries}; 3-ray line_y fans',
         doc='the result of a call does not depend on what was traced before: B after A equals B on a fresh identical lens '
             '(per-surface records are reset, no stale caches, no leftover state)')
def h3_history(ctx, seq):
    nums = plane_lens_numbers(ctx, True)
    o1 = plane_lens(ctx, numbers=nums)
    o2 = plane_lens(ctx, numbers=nums)

    def call(o, kind):
        if kind == 'trace0':
            o.trace(0.0, 0.0, 0.55, num_rays=3, distribution='line_y')
        elif kind == 'trace1':
            o.trace(0.0, 1.0, 0.55, num_rays=3, distribution='line_y')
        elif kind == 'generic':
            o.trace_generic(0.0, 0.5, 0.25, -0.5, 0.55)
        elif kind == 'paraxial_then_trace0':
            o.paraxial.chief_ray()
            o.trace(0.0, 0.0, 0.55, num_rays=3, distribution='line_y')
        else:
            o.paraxial.f2()
            o.paraxial.chief_ray()
            return None
        return records(ctx, o)
    call(o1, seq[0])
    after_history = call(o1, seq[1])
    fresh = call(o2, seq[1])
    same_records(ctx, fresh, after_history, 'same_as_on_fresh_lens')
    ctx.observe('y', after_history[[k for k in after_history if k.startswith('y3')][0]])


@harness('C13', 'H4_batch_independence', funcs=FUNCS, timeout=1800,
         cases=lambda tier: [dict(kind='plane')] + ([dict(kind='sphere')] if tier == 'thorough' else []),
         bounds='one refracting surface (plane / sphere with symbolic R) + image plane; a 2-ray trace_generic call vs the 1-ray call of '
                'its first ray',
         doc='the result for one ray does not depend on which other rays are traced in the same call (closed-form geometries: exactly)')
def h4_batch(ctx, kind):
    L = Lens(ctx, 1, (), 1, 'inf', planes=((1,) if kind == 'plane' else ()), tpos=True)
    o = L.build(aperture=('EPD', 2.0), fields=(0.0, 5.0))
    if kind == 'sphere':
        # a well-conditioned sphere (|R| >= 20, n <= 2, EPD 2): both rays hit and refract, so the two-ray run has few paths
        ctx.assume(ctx.And(L.R[0] * L.R[0] >= 400.0, L.n[0] <= 2.0))
    p1, p2 = ctx.real('Py1', lo=-1.0, hi=1.0), ctx.real('Py2', lo=-1.0, hi=1.0)
    h = ctx.real('Hy', lo=-1.0, hi=1.0)
    o.trace_generic(ctx.arr(0.0, 0.0), ctx.arr(h, h), ctx.arr(0.0, 0.0), ctx.arr(p1, p2), 0.55)
    two = records(ctx, o)
    o.trace_generic(ctx.arr(0.0), ctx.arr(h), ctx.arr(0.0), ctx.arr(p1), 0.55)
    one = records(ctx, o)
    for k, v in one.items():
        w = two.get(k)
        if w is None:
            ctx.oblige(f'missing_{k}', False)
        elif ctx.finite(v) and ctx.finite(w):
            ctx.oblige(f'ray0_{k}', ctx.eq(v, w))
        else:
            ctx.oblige(f'ray0_{k}', (not ctx.finite(v)) and (not ctx.finite(w)))
    ctx.observe('y_img', one['y2_0'])


@harness('C13', 'H5_analysis_objects', funcs=FUNCS, cases=lambda tier: [dict(first=f) for f in ('rms', 'geometric', 'centroid')],
         stubs=['Optic.trace -> uninterpreted functions of (Hx,Hy,Px,Py,wavelength) per surface and quantity'],
         bounds='SpotDiagram (2 fields, 1 wavelength, 3-ray line_y fan) over an uninterpreted tracer; query sequences of length 3',
         doc='queries on an analysis object do not change its stored data: centroid / radii are the same whatever was queried before')
def h5_analysis(ctx, first):
    from optiland.optic import Optic
    from optiland.analysis.spot_diagram import SpotDiagram
    from checks.uftrace import install_uf_tracer
    o = Optic()
    o.add_surface(index=0, thickness=np.inf)
    o.add_surface(index=1, thickness=5.0, is_stop=True)
    o.add_surface(index=2)
    o.set_aperture('EPD', 2.0)
    o.set_field_type('angle')
    o.add_field(y=0.0)
    o.add_field(y=ctx.real('fy', lo=1.0, hi=20.0))
    o.add_wavelength(0.55, is_primary=True)
    install_uf_tracer(ctx, o)
    sd = SpotDiagram(o, num_rings=3, distribution='line_y')
    d0 = [[[ctx.vals(a) for a in wd] for wd in fd] for fd in sd.data]
    c0 = None
    if first == 'centroid':
        c0 = sd.centroid()
    elif first == 'rms':
        sd.rms_spot_radius()
    else:
        sd.geometric_spot_radius()
    c1 = sd.centroid()
    r1 = sd.rms_spot_radius()
    d1 = [[[ctx.vals(a) for a in wd] for wd in fd] for fd in sd.data]
    for i, fd in enumerate(d0):
        for j, wd in enumerate(fd):
            for q, arr in enumerate(wd):
                for m, v in enumerate(arr):
                    ctx.oblige(f'data_{i}{j}{q}_{m}', ctx.eq(d1[i][j][q][m], v))
    # centroid = mean of the stored x / y of the primary wavelength
    for i in range(2):
        xs, ys = d0[i][0][0], d0[i][0][1]
        ctx.oblige(f'centroid_x_{i}', ctx.eq(c1[i][0], sum(xs[1:], xs[0]) / len(xs)))
        ctx.oblige(f'centroid_y_{i}', ctx.eq(c1[i][1], sum(ys[1:], ys[0]) / len(ys)))
    r2 = sd.rms_spot_radius()
    for i in range(2):
        ctx.oblige(f'rms_repeat_{i}', ctx.eq(r2[i][0], r1[i][0]))
    ctx.observe('cy', c1[1][1])


@harness('C13', 'H4b_iterative_surface_bundle', funcs=FUNCS, cases=lambda tier: [dict(other='axial'), dict(other='twin')],
         bounds='even asphere (R = -2, one symbolic r^2 coefficient, symbolic tolerance, max_iter = 2): a skew ray (chord slope -2, direction '
                '(2,-3,6)/7) traced alone and in a 2-ray bundle whose other ray is the axial ray (converged from the start) or a copy of itself',
         doc='the distance found for a ray by the iterative intersection does not depend on the other rays traced in the same call (when no '
             'ray is lost, the bundle needs exactly as many iterations as its slowest ray, which here is the ray itself)')
def h4b_iterative_bundle(ctx, other):
    from optiland.coordinate_system import CoordinateSystem
    from optiland.geometries import EvenAsphere
    from optiland.rays import RealRays
    from checks.C07 import ray_to_surface_point, rational
    R = ctx.const(-2.0)
    c1 = ctx.real('c1', lo=-0.01, hi=0.01)
    tol = ctx.real('tol', lo=1e-9, hi=1e-3)
    P0, d, P, tau = ray_to_surface_point(ctx, R, 0.0, sl=rational(ctx, -2, 1), tau=ctx.const(1.0))
    second = dict(x=0.0, y=0.0, z=-1.0, L=0.0, M=0.0, N=1.0)
    out = []
    for bundle in (False, True):
        g = EvenAsphere(CoordinateSystem(), R, 0.0, tol=tol, max_iter=2, coefficients=[c1])
        rays = RealRays(0.0, 0.0, 0.0, 0.0, 0.0, 1.0, 1.0, 0.55)
        for nm, v in zip(('x', 'y', 'z', 'L', 'M', 'N'), tuple(P0) + tuple(d)):
            if bundle:
                setattr(rays, nm, ctx.arr(v, second[nm] if other == 'axial' else v))
            else:
                setattr(rays, nm, ctx.arr(v))
        out.append(ctx.vals(g.distance(rays))[0])
    a, b = out
    if ctx.finite(a) and ctx.finite(b):
        ctx.oblige('same_distance_alone_and_in_the_bundle', ctx.eq(a, b))
    else:
        ctx.oblige('lost_together', (not ctx.finite(a)) and (not ctx.finite(b)))
    ctx.observe('t', a)
