"""C02 - every traced ray obeys Snell/reflection on the prescribed surface (DESIGN §6 C02)."""
import math

import numpy as np

from symopt.harness import harness
from checks.common import ideal

FUNCS = ['optiland.rays.real_rays.RealRays.refract', 'optiland.rays.real_rays.RealRays.reflect',
         'optiland.rays.real_rays.RealRays._align_surface_normal', 'optiland.rays.real_rays.RealRays.propagate',
         'optiland.rays.real_rays.RealRays.rotate_x', 'optiland.rays.real_rays.RealRays.rotate_y',
         'optiland.rays.real_rays.RealRays.rotate_z', 'optiland.coordinate_system.CoordinateSystem.localize',
         'optiland.coordinate_system.CoordinateSystem.globalize', 'optiland.geometries.plane.Plane.distance',
         'optiland.geometries.standard.StandardGeometry.distance', 'optiland.geometries.standard.StandardGeometry.surface_normal',
         'optiland.geometries.standard.StandardGeometry.sag', 'optiland.surfaces.standard_surface.Surface._trace_real',
         'optiland.surfaces.standard_surface.Surface._interact', 'optiland.surfaces.standard_surface.Surface._record',
         'optiland.surfaces.surface_group.SurfaceGroup.trace', 'optiland.geometries.newton_raphson.NewtonRaphsonGeometry.distance',
         'optiland.geometries.even_asphere.EvenAsphere', 'optiland.geometries.polynomial.PolynomialGeometry',
         'optiland.geometries.chebyshev.ChebyshevPolynomialGeometry']


def unit(ctx, p, zsign=1, strict=False):
    """a unit vector with symbolic x,y components and z = zsign*sqrt(1-x^2-y^2) (strict: z != 0)"""
    a = ctx.real(p + 'x', lo=-1.0, hi=1.0)
    b = ctx.real(p + 'y', lo=-1.0, hi=1.0)
    ctx.assume((a * a + b * b < 1) if strict else (a * a + b * b <= 1))
    c = ctx.sqrt(1 - a * a - b * b)
    return a, b, (c if zsign > 0 else -c)


def mkrays(ctx, x, y, z, L, M, N, i=1.0, w=0.55, opd=None):
    from optiland.rays import RealRays
    r = RealRays(x, y, z, L, M, N, i, w)
    if opd is not None:
        r.opd = ctx.arr(opd)
    return r


def cross(a, b):
    return (a[1] * b[2] - a[2] * b[1], a[2] * b[0] - a[0] * b[2], a[0] * b[1] - a[1] * b[0])


def dot(a, b):
    return a[0] * b[0] + a[1] * b[1] + a[2] * b[2]


# ------------------------------------------------------------------------------------ H4 interaction
@harness('C02', 'H4_refract', funcs=FUNCS,
         cases=lambda tier: [dict(dz=1, nz=1), dict(dz=1, nz=-1), dict(dz=-1, nz=1)],
         bounds='one ray; arbitrary unit direction (either z-hemisphere), arbitrary unit normal (either orientation), n1,n2 in [1,4]',
         doc='RealRays.refract: output unit, vector Snell law n2 (t x n) = n1 (d x n), same half-space, NaN on total internal '
             'reflection; pre-surface direction recorded')
def h4_refract(ctx, dz, nz):
    d = unit(ctx, 'd', dz)
    n = unit(ctx, 'n', nz)
    n1, n2 = ctx.real('n1', lo=1.0, hi=4.0), ctx.real('n2', lo=1.0, hi=4.0)
    # the ray crosses the surface (a ray exactly tangent to it, d.n = 0, has no transversal intersection)
    ctx.assume(ctx.Not(dot(d, n) == 0))
    rays = mkrays(ctx, 0.0, 0.0, 0.0, *d)
    nx, ny, nzz = ctx.arr(n[0]), ctx.arr(n[1]), ctx.arr(n[2])
    rays.refract(nx, ny, nzz, n1, n2)
    t = (ctx.val(rays.L), ctx.val(rays.M), ctx.val(rays.N))
    cosi = dot(d, n)
    rad = 1 - (n1 / n2) * (n1 / n2) * (1 - cosi * cosi)
    fin = [ctx.finite(c) for c in t]
    if not all(fin):
        ctx.oblige('all_components_nonfinite', not any(fin))
        return
    ctx.oblige('refracted_exists', rad >= 0)
    ctx.observe('tz', t[2])
    ctx.oblige('unit', ctx.eq(dot(t, t), 1.0))
    lhs, rhs = cross(t, n), cross(d, n)
    for i, ax in enumerate('xyz'):
        ctx.oblige(f'snell_{ax}', ctx.eq(n2 * lhs[i], n1 * rhs[i]))
    ctx.oblige('same_halfspace', ctx.le(0.0, dot(t, n) * cosi))
    for nm, got, want in (('L0', rays.L0, d[0]), ('M0', rays.M0, d[1]), ('N0', rays.N0, d[2])):
        ctx.oblige(f'incoming_{nm}', ctx.eq(got, want))
    # the caller's normal arrays keep describing the same line (only re-oriented towards the ray)
    al = (ctx.val(nx), ctx.val(ny), ctx.val(nzz))
    c2 = cross(al, n)
    for i, ax in enumerate('xyz'):
        ctx.oblige(f'normal_array_parallel_{ax}', ctx.eq(c2[i], 0.0))
    ctx.oblige('normal_array_unit', ctx.eq(dot(al, al), 1.0))


@harness('C02', 'H4_reflect', funcs=FUNCS,
         cases=lambda tier: [dict(dz=1, nz=1), dict(dz=1, nz=-1), dict(dz=-1, nz=-1)],
         bounds='one ray; arbitrary unit direction and unit normal',
         doc='RealRays.reflect: t = d - 2 (d.n) n, unit, angle of reflection = angle of incidence, opposite half-space')
def h4_reflect(ctx, dz, nz):
    d = unit(ctx, 'd', dz)
    n = unit(ctx, 'n', nz)
    rays = mkrays(ctx, 0.0, 0.0, 0.0, *d)
    rays.reflect(ctx.arr(n[0]), ctx.arr(n[1]), ctx.arr(n[2]))
    t = (ctx.val(rays.L), ctx.val(rays.M), ctx.val(rays.N))
    cosi = dot(d, n)
    for i, ax in enumerate('xyz'):
        ctx.oblige(f'law_{ax}', ctx.eq(t[i], d[i] - 2 * cosi * n[i]))
    ctx.oblige('unit', ctx.eq(dot(t, t), 1.0))
    ctx.oblige('opposite_halfspace', ctx.eq(dot(t, n), -cosi))
    ctx.observe('tz', t[2])
    for nm, got, want in (('L0', rays.L0, d[0]), ('M0', rays.M0, d[1]), ('N0', rays.N0, d[2])):
        ctx.oblige(f'incoming_{nm}', ctx.eq(got, want))


# ------------------------------------------------------------------------------------ H1 frames
def rot_oracle(ctx, v, rx, ry, rz, inverse=False):
    """independent rigid-map oracle: localize = Rz(-rz) Ry(-ry) Rx(-rx) (applied in that order x, y, z)"""
    def Rx(a, p):
        c, s = ctx.cos(a), ctx.sin(a)
        return (p[0], p[1] * c - p[2] * s, p[1] * s + p[2] * c)

    def Ry(a, p):
        c, s = ctx.cos(a), ctx.sin(a)
        return (p[0] * c + p[2] * s, p[1], -p[0] * s + p[2] * c)

    def Rz(a, p):
        c, s = ctx.cos(a), ctx.sin(a)
        return (p[0] * c - p[1] * s, p[0] * s + p[1] * c, p[2])
    if not inverse:
        return Rz(-rz, Ry(-ry, Rx(-rx, v)))
    return Rx(rx, Ry(ry, Rz(rz, v)))


def cases_frames(tier):
    out = [dict(axes='x'), dict(axes='y'), dict(axes='z'), dict(axes='xy')]
    if tier == 'thorough':
        out += [dict(axes='xyz'), dict(axes='xz')]
    return out


@harness('C02', 'H1_frames', cases=cases_frames, funcs=FUNCS,
         bounds='decentre (x,y,z) and tilts about the enumerated axes symbolic (|angle| <= 1.5 rad), arbitrary ray position and direction',
         doc='CoordinateSystem.localize = translate then rotate x,y,z (rigid map oracle); globalize is its exact inverse; '
             'norms of directions are preserved')
def h1_frames(ctx, axes):
    from optiland.coordinate_system import CoordinateSystem
    ox, oy, oz = ctx.real('ox'), ctx.real('oy'), ctx.real('oz')
    ang = {a: (ctx.real('r' + a, lo=-1.5, hi=1.5, ne=0) if a in axes else 0.0) for a in 'xyz'}
    p = (ctx.real('px'), ctx.real('py'), ctx.real('pz'))
    d = unit(ctx, 'd', 1)
    cs = CoordinateSystem(x=ox, y=oy, z=oz, rx=ang['x'], ry=ang['y'], rz=ang['z'])
    rays = mkrays(ctx, p[0], p[1], p[2], *d)
    cs.localize(rays)
    zero = ctx.const(0.0)
    a = {k: (v if k in axes else zero) for k, v in ang.items()}
    wantp = rot_oracle(ctx, (p[0] - ox, p[1] - oy, p[2] - oz), a['x'], a['y'], a['z'])
    wantd = rot_oracle(ctx, d, a['x'], a['y'], a['z'])
    loc = [ctx.val(v) for v in (rays.x, rays.y, rays.z, rays.L, rays.M, rays.N)]
    for nm, got, want in zip(('x', 'y', 'z', 'L', 'M', 'N'), loc, wantp + wantd):
        ctx.oblige(f'localize_{nm}', ctx.eq(got, want))
    ctx.observe('loc_x', loc[0])
    ctx.observe('loc_N', loc[5])
    ctx.oblige('direction_norm_preserved', ctx.eq(loc[3] * loc[3] + loc[4] * loc[4] + loc[5] * loc[5], 1.0))
    cs.globalize(rays)
    for nm, got, want in zip(('x', 'y', 'z', 'L', 'M', 'N'), (rays.x, rays.y, rays.z, rays.L, rays.M, rays.N), p + d):
        ctx.oblige(f'roundtrip_{nm}', ctx.eq(got, want))
    # vertex of the surface in global coordinates
    pg = cs.position_in_gcs
    for nm, got, want in zip('xyz', pg, (ox, oy, oz)):
        ctx.oblige(f'vertex_{nm}', ctx.eq(got, want))


# ------------------------------------------------------------------------------------ H2 intersection
@harness('C02', 'H2_plane', funcs=FUNCS, cases=lambda tier: [dict(dz=1), dict(dz=-1)],
         bounds='arbitrary start point and unit direction',
         doc='Plane.distance: the point p + t d lies on z = 0 with t >= 0; NaN when the plane is behind the ray')
def h2_plane(ctx, dz):
    from optiland.geometries import Plane
    from optiland.coordinate_system import CoordinateSystem
    p = (ctx.real('px'), ctx.real('py'), ctx.real('pz'))
    d = unit(ctx, 'd', dz)
    g = Plane(CoordinateSystem())
    t = ctx.val(g.distance(mkrays(ctx, *p, *d)))
    if ctx.finite(t):
        ctx.oblige('on_plane', ctx.eq(p[2] + t * d[2], 0.0))
        ctx.oblige('forward', ctx.le(0.0, t))
        ctx.observe('t', t)
    nx, ny, nz = g.surface_normal(None)
    ctx.oblige('normal', (nx, ny, nz) == (0, 0, 1))


def cases_conic(tier):
    out = [dict(kind='sphere', dz=1), dict(kind='conic', dz=1), dict(kind='sphere', dz=-1)]
    if tier == 'thorough':
        out += [dict(kind='conic', dz=-1), dict(kind='conic3d', dz=1)]
    return out


@harness('C02', 'H2_conic', cases=cases_conic, funcs=FUNCS, timeout=900,
         bounds='one ray; sphere (k=0) and conic with symbolic k; meridional rays (x=0, L=0) in the quick tier, fully 3-D in thorough; '
                'arbitrary R != 0',
         doc='StandardGeometry.distance: on every finite path p + t d satisfies x^2+y^2+(1+k)z^2-2Rz=0, t>=0, and among the forward '
             'roots the one nearest the vertex plane is taken; non-finite only when there is no forward root')
def h2_conic(ctx, kind, dz):
    from optiland.geometries import StandardGeometry
    from optiland.coordinate_system import CoordinateSystem
    R = ctx.real('R', ne=0)
    k = ctx.real('k') if kind.startswith('conic') else ctx.const(0.0)
    if kind == 'conic3d':
        p = (ctx.real('px'), ctx.real('py'), ctx.real('pz'))
        d = unit(ctx, 'd', dz)
    else:
        p = (ctx.const(0.0), ctx.real('py'), ctx.real('pz'))
        m = ctx.real('dy', lo=-1.0, hi=1.0)
        nn = ctx.sqrt(1 - m * m)
        d = (ctx.const(0.0), m, nn if dz > 0 else -nn)
    g = StandardGeometry(CoordinateSystem(), R, k)
    t = ctx.val(g.distance(mkrays(ctx, *p, *d)))
    e = 1 + k
    a = d[0] * d[0] + d[1] * d[1] + e * d[2] * d[2]
    b = 2 * (p[0] * d[0] + p[1] * d[1] + e * p[2] * d[2] - R * d[2])
    c = p[0] * p[0] + p[1] * p[1] + e * p[2] * p[2] - 2 * R * p[2]
    disc = b * b - 4 * a * c
    if ctx.finite(t):
        q = (p[0] + t * d[0], p[1] + t * d[1], p[2] + t * d[2])
        ctx.observe('t', t)
        ctx.oblige('on_surface', ctx.eq(q[0] * q[0] + q[1] * q[1] + e * q[2] * q[2] - 2 * R * q[2], 0.0))
        if bool(a == 0):
            # single root of the degenerate (linear) equation: recorded as known finding F11 if negative
            ctx.oblige('forward_linear_branch', ctx.le(0.0, t))
        else:
            ctx.oblige('forward', ctx.le(0.0, t))
            t_other = -b / a - t          # Vieta
            z_other = p[2] + t_other * d[2]
            ctx.oblige('nearest_vertex_plane', ctx.Or(t_other < 0, ctx.le(ctx.abs(q[2]), ctx.abs(z_other))))
    # (a non-finite result carries no obligation here: the property only forbids finite numbers for rays without an
    #  intersection; that rays which do exist are not lost is part of C06)


@harness('C02', 'H3_normal', funcs=FUNCS, cases=lambda tier: [dict(kind='sphere'), dict(kind='conic')],
         bounds='arbitrary point of the vertex sheet of a sphere / conic (symbolic R, k)',
         doc='StandardGeometry.surface_normal is a unit vector parallel to grad F = (x, y, (1+k) z - R) at every point of the vertex sheet')
def h3_normal(ctx, kind):
    from optiland.geometries import StandardGeometry
    from optiland.coordinate_system import CoordinateSystem
    R = ctx.real('R', ne=0)
    k = ctx.real('k') if kind == 'conic' else ctx.const(0.0)
    x, y, z = ctx.real('x'), ctx.real('y'), ctx.real('z')
    e = 1 + k
    ctx.assume(ctx.eq(x * x + y * y + e * z * z - 2 * R * z, 0.0))   # on the quadric
    ctx.assume((R - e * z) * R > 0)                                   # on the sheet through the vertex
    g = StandardGeometry(CoordinateSystem(), R, k)
    n = [ctx.val(v) for v in g.surface_normal(mkrays(ctx, x, y, z, 0.0, 0.0, 1.0))]
    if not all(ctx.finite(v) for v in n):
        ctx.oblige('normal_defined_on_sheet', False)
        return
    ctx.observe('nz', n[2])
    ctx.oblige('unit', ctx.eq(dot(n, n), 1.0))
    grad = (x, y, e * z - R)
    cr = cross(n, grad)
    for i, ax in enumerate('xyz'):
        ctx.oblige(f'parallel_to_gradient_{ax}', ctx.eq(cr[i], 0.0))
    # sag() describes the same sheet
    zs = ctx.val(g.sag(x, y))
    if ctx.finite(zs):
        ctx.oblige('sag_is_sheet', ctx.eq(zs, z))


@harness('C02', 'H3b_polynomial_normal', funcs=FUNCS, cases=lambda tier: [dict(shape=(1, 3)), dict(shape=(2, 3)), dict(shape=(3, 2)), dict(shape='asphere')],
         bounds='xy-polynomial surface on a spherical base (symbolic R) with a coefficient array of 1 x 3, 2 x 3 or 3 x 2 symbolic coefficients '
                '(non-square on purpose), even asphere with 2 symbolic coefficients; arbitrary point (x, y) inside the base sphere',
         doc='the surface normal of polynomial / aspheric surfaces is the unit vector along (dz/dx, dz/dy, -1) of the documented sag '
             'z = base sag + sum c_ij x^i y^j  (resp. + sum C_i r^(2i+2))')
def h3b_polynomial_normal(ctx, shape):
    from optiland.coordinate_system import CoordinateSystem
    from optiland.geometries import PolynomialGeometry, EvenAsphere
    R = ctx.real('R', ne=0)
    x, y = ctx.real('x'), ctx.real('y')
    ctx.assume(x * x + y * y < R * R)
    if shape == 'asphere':
        cs_ = [ctx.real('C0', lo=-1.0, hi=1.0), ctx.real('C1', lo=-1.0, hi=1.0)]
        g = EvenAsphere(CoordinateSystem(), R, 0.0, coefficients=cs_)
    else:
        c = [[ctx.real(f'c{i}{j}', lo=-1.0, hi=1.0) for j in range(shape[1])] for i in range(shape[0])]
        if ctx.sym:
            from symopt.facade import oarr
            arr = np.empty(shape, dtype=object)
            for i in range(shape[0]):
                for j in range(shape[1]):
                    arr[i, j] = c[i][j]
            carr = oarr(arr)
        else:
            carr = np.array(c, dtype=float)
        g = PolynomialGeometry(CoordinateSystem(), R, 0.0, coefficients=carr)
    n = [ctx.val(v) for v in g._surface_normal(ctx.arr(x), ctx.arr(y))]
    if not all(ctx.finite(v) for v in n):
        ctx.oblige('normal_defined', False)
        return
    r2 = x * x + y * y
    den = R * ctx.sqrt(1 - r2 / (R * R))
    gx, gy = x / den, y / den

    def pw(b, e):
        r = 1.0
        for _ in range(e):
            r = r * b
        return r
    if shape == 'asphere':
        for i, Ci in enumerate(cs_):
            gx = gx + 2 * (i + 1) * x * Ci * pw(r2, i)
            gy = gy + 2 * (i + 1) * y * Ci * pw(r2, i)
    else:
        for i in range(shape[0]):
            for j in range(shape[1]):
                if i >= 1:
                    gx = gx + i * c[i][j] * pw(x, i - 1) * pw(y, j)
                if j >= 1:
                    gy = gy + j * c[i][j] * pw(x, i) * pw(y, j - 1)
    grad = (gx, gy, -1.0)
    ctx.oblige('unit', ctx.eq(dot(n, n), 1.0))
    cr = cross(n, grad)
    for i, ax in enumerate('xyz'):
        ctx.oblige(f'parallel_to_gradient_{ax}', ctx.eq(cr[i], 0.0))
    ctx.oblige('points_against_the_axis', n[2] < 0)
    ctx.observe('nz', n[2])


# ------------------------------------------------------------------------------------ H5 orchestration
class FakeGeometry:
    """geometry whose distance and normal are arbitrary symbolic values (uninterpreted geometry)"""

    def __init__(self, cs, t, n):
        self.cs = cs
        self.t = t
        self.n = n
        self.radius = np.inf
        self.is_symmetric = True
        self.calls = []

    def localize(self, rays):
        self.calls.append('localize')
        self.cs.localize(rays)

    def globalize(self, rays):
        self.calls.append('globalize')
        self.cs.globalize(rays)

    def distance(self, rays):
        self.calls.append('distance')
        return self.t

    def surface_normal(self, rays):
        self.calls.append('normal')
        return self.n


@harness('C02', 'H5_orchestration', funcs=FUNCS,
         cases=lambda tier: [dict(refl=False, shift=False), dict(refl=True, shift=False), dict(refl=False, shift=True)],
         bounds='one surface with arbitrary (uninterpreted) intersection distance and unit normal; decentred frame in one case',
         doc='Surface._trace_real: propagate by the distance returned, OPD += |t n_pre(lambda)| with the medium in front, interact '
             'with the normal returned, record the ray after returning to the global frame')
def h5_orch(ctx, refl, shift):
    from optiland.coordinate_system import CoordinateSystem
    from optiland.surfaces.standard_surface import Surface
    p = (ctx.real('px'), ctx.real('py'), ctx.real('pz'))
    d = unit(ctx, 'd', 1)
    n = unit(ctx, 'n', -1)
    t = ctx.real('t')
    opd0 = ctx.real('opd0', lo=0.0)
    n1, n2 = ctx.real('n1', lo=1.0, hi=4.0), ctx.real('n2', lo=1.0, hi=4.0)
    o = (ctx.real('ox'), ctx.real('oy'), ctx.real('oz')) if shift else (0.0, 0.0, 0.0)
    cs = CoordinateSystem(x=o[0], y=o[1], z=o[2])
    g = FakeGeometry(cs, ctx.arr(t), (ctx.arr(n[0]), ctx.arr(n[1]), ctx.arr(n[2])))
    s = Surface(g, ideal(n1), ideal(n2), is_reflective=refl)
    rays = mkrays(ctx, *p, *d, opd=opd0)
    s.trace(rays)
    q = (p[0] + t * d[0], p[1] + t * d[1], p[2] + t * d[2])
    for nm, got, rec, want in zip('xyz', (rays.x, rays.y, rays.z), (s.x, s.y, s.z), q):
        ctx.oblige(f'position_{nm}', ctx.eq(got, want))
        ctx.oblige(f'record_{nm}', ctx.eq(rec, want))
    ctx.oblige('opd', ctx.eq(rays.opd, opd0 + ctx.abs(t * n1)))
    ctx.oblige('record_opd', ctx.eq(s.opd, opd0 + ctx.abs(t * n1)))
    ctx.oblige('call_order', g.calls == ['localize', 'distance', 'normal', 'globalize'])
    tt = (ctx.val(rays.L), ctx.val(rays.M), ctx.val(rays.N))
    if all(ctx.finite(v) for v in tt):
        ctx.observe('N_out', tt[2])
        if refl:
            cosi = dot(d, n)
            for i, ax in enumerate('xyz'):
                ctx.oblige(f'reflect_{ax}', ctx.eq(tt[i], d[i] - 2 * cosi * n[i]))
        else:
            lhs, rhs = cross(tt, n), cross(d, n)
            for i, ax in enumerate('xyz'):
                ctx.oblige(f'snell_{ax}', ctx.eq(n2 * lhs[i], n1 * rhs[i]))
        for nm, rec, want in zip('LMN', (s.L, s.M, s.N), tt):
            ctx.oblige(f'record_{nm}', ctx.eq(rec, want))
    ctx.oblige('record_intensity', ctx.eq(s.intensity, rays.i))


# ------------------------------------------------------------------------------------ H6 monolithic wiring
def cases_wiring(tier):
    return [dict(seq=('refract', 'mirror', 'image')), dict(seq=('refract', 'refract', 'image')),
            dict(seq=('mirror', 'mirror', 'image'))]


@harness('C02', 'H6_wiring_planes', cases=cases_wiring, funcs=FUNCS,
         bounds='real Optic with 2 plane surfaces (+ image plane), symbolic separations and indices, one arbitrary ray launched '
                'with RealRays directly into SurfaceGroup.trace',
         doc='sequential trace: surfaces visited in order, each with its own media; the record of every surface is the ray state '
             'just behind that surface (position, direction, OPD = sum n*length); records are not overwritten by later surfaces')
def h6_wiring(ctx, seq):
    from optiland.optic import Optic
    o = Optic()
    o.add_surface(index=0, thickness=np.inf)
    ts, ns = [], []
    cur_n = ctx.const(1.0)
    for i, kind in enumerate(seq[:-1], start=1):
        t = ctx.real(f't{i}', lo=0.1, hi=50.0) if (seq[:i].count('mirror') % 2 == 0) else -ctx.real(f't{i}', lo=0.1, hi=50.0)
        if kind == 'mirror':
            o.add_surface(index=i, thickness=t, material='mirror', is_stop=(i == 1))
            ns.append(cur_n)
        else:
            n = ctx.real(f'n{i}', lo=1.0, hi=4.0)
            o.add_surface(index=i, thickness=t, material=ideal(n), is_stop=(i == 1))
            cur_n = n
            ns.append(n)
        ts.append(t)
    o.add_surface(index=len(seq))
    o.add_wavelength(0.55, is_primary=True)
    p = [ctx.real('px'), ctx.real('py'), -ctx.real('z0', lo=0.1, hi=10.0)]
    d = list(unit(ctx, 'd', 1, strict=True))
    rays = mkrays(ctx, *p, *d)
    o.surface_group.trace(rays)
    sg = o.surface_group
    # oracle: planes perpendicular to the axis
    opd = ctx.const(0.0)
    n_here = ctx.const(1.0)
    zs = [ctx.const(0.0)]
    for t in ts:
        zs.append(zs[-1] + t)
    ok = True
    for k, kind in enumerate(seq, start=1):
        zk = zs[k - 1]
        tt = (zk - p[2]) / d[2]
        p = [p[0] + tt * d[0], p[1] + tt * d[1], zk]
        opd = opd + ctx.abs(tt * n_here)
        if kind == 'mirror':
            d = [d[0], d[1], -d[2]]
        elif kind in ('refract', 'image'):
            # (the library's image surface is an ordinary surface whose post-medium is 'air')
            n_new = ns[k - 1] if kind == 'refract' else ctx.const(1.0)
            mu = n_here / n_new
            tx, ty = mu * d[0], mu * d[1]
            rad = 1 - tx * tx - ty * ty
            if not bool(rad >= 0):
                ok = False   # total internal reflection: everything behind is NaN
                break
            d = [tx, ty, ctx.sqrt(rad) * (1 if bool(d[2] > 0) else -1)]
            n_here = n_new
        got = [ctx.val(v[k]) for v in (sg.x, sg.y, sg.z, sg.L, sg.M, sg.N, sg.opd)]
        if not all(ctx.finite(v) for v in got):
            ctx.oblige(f'surface{k}_finite', False)
            return
        for nm, g_, w_ in zip(('x', 'y', 'z', 'L', 'M', 'N', 'opd'), got, p + d + [opd]):
            ctx.oblige(f'surface{k}_{nm}', ctx.eq(g_, w_))
    if ok:
        ctx.observe('y_img', sg.y[len(seq)])
    else:
        k_bad = k
        ctx.oblige('tir_reported_nonfinite', not ctx.finite(sg.L[k_bad]))


# ------------------------------------------------------------------------------------ H7 Newton-Raphson surfaces
@harness('C02', 'H7_newton_raphson', funcs=FUNCS, cases=lambda tier: [dict(bundle='single'), dict(bundle='with_lost_ray'), dict(bundle='with_axial_ray')], max_paths=40,
         bounds='even asphere = sphere (R = -2; symbolic in the thorough tier) + one symbolic r^2 coefficient, symbolic tolerance, max_iter = 2; ray through the point of the '
                'base sphere with chord slope -2 (a symbolic point in the thorough tier) with the rational unit direction (2,-3,6)/7; alone, in a bundle with a ray that is already lost (NaN), or with an axial ray that has converged from the start',
         doc='the iterative intersection leaves every valid ray either on the surface to within the tolerance (the residual tested before the '
             'last step is below tol) or after max_iter steps - a lost ray in the same bundle does not cut the iteration short - and the '
             'distance returned is the distance to the point after that many Newton steps along the ray')
def h7_newton_raphson(ctx, bundle):
    from optiland.coordinate_system import CoordinateSystem
    from optiland.geometries import EvenAsphere
    from optiland.rays import RealRays
    from checks.C07 import ray_to_surface_point
    R = ctx.real('R', ne=0) if ctx.tier == 'thorough' else ctx.const(-2.0)
    c1 = ctx.real('c1', lo=-0.01, hi=0.01)
    tol = ctx.real('tol', lo=1e-9, hi=1e-3)
    if ctx.tier == 'thorough':
        P0, d, P, tau = ray_to_surface_point(ctx, R, 0.0)
    else:
        from checks.C07 import rational
        P0, d, P, tau = ray_to_surface_point(ctx, R, 0.0, sl=rational(ctx, -2, 1), tau=ctx.const(1.0))
    MAXIT = 2
    g = EvenAsphere(CoordinateSystem(), R, 0.0, tol=tol, max_iter=MAXIT, coefficients=[c1])
    calls = []
    lib_sag = g.sag

    def counting_sag(x=0, y=0):
        calls.append(1)
        return lib_sag(x, y)
    g.sag = counting_sag
    nan = float('nan')
    rays = RealRays(0.0, 0.0, 0.0, 0.0, 0.0, 1.0, 1.0, 0.55)
    two = bundle == 'with_lost_ray'
    axial = bundle == 'with_axial_ray'          # second ray along the axis through the vertex: its residual is 0 from the first step on
    second = dict(x=0.0, y=0.0, z=-1.0, L=0.0, M=0.0, N=1.0)
    for nm, v in zip(('x', 'y', 'z', 'L', 'M', 'N'), tuple(P0) + tuple(d)):
        setattr(rays, nm, ctx.arr(v, nan) if two else (ctx.arr(v, second[nm]) if axial else ctx.arr(v)))
    xs, ys_, zs = g._intersection_sphere(rays)
    if not ctx.finite(ctx.vals(zs)[0]):
        return
    # of the two points where the ray meets the base sphere the library takes the one nearer to the vertex plane: that has to be the point aimed at
    ctx.assume(ctx.And(ctx.eq(ctx.vals(zs)[0], P[2]), ctx.eq(ctx.vals(xs)[0], P[0])))
    t = ctx.vals(g.distance(rays))
    k = len(calls)
    tA = t[0]
    if not ctx.finite(tA):
        return                      # (the ray misses the base sphere / leaves the domain of the sag: it is lost)
    ctx.oblige('at_most_max_iter_steps', 1 <= k <= MAXIT)

    def sag(x, y):
        r2 = x * x + y * y
        return r2 / (R * (1 + ctx.sqrt(1 - r2 / (R * R)))) + c1 * r2
    # the Newton steps from the base-sphere point (the point aimed at)
    p = list(P)
    dz_last = None
    for _ in range(k):
        dz_last = p[2] - sag(p[0], p[1])
        step = dz_last / d[2]
        p = [p[i] - step * d[i] for i in range(3)]
    ctx.oblige('stops_only_on_tolerance_or_max_iter', ctx.Or(k == MAXIT, ctx.abs(dz_last) < tol))
    dist2 = sum(((p[i] - P0[i]) * (p[i] - P0[i]) for i in range(1, 3)), (p[0] - P0[0]) * (p[0] - P0[0]))
    ctx.oblige('distance_to_the_iterated_point', ctx.And(tA >= 0, ctx.eq(tA * tA, dist2)))
    if two:
        ctx.oblige('lost_ray_stays_lost', not ctx.finite(t[1]))
    if axial:
        ctx.oblige('axial_ray_reaches_the_vertex', ctx.eq(t[1], 1.0))
    ctx.observe('tA', tA)
