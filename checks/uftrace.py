"""Tracer-as-uninterpreted-function stub (DESIGN §5): Optic.trace / trace_generic are replaced, on one Optic instance,
by a deterministic function of (Hx, Hy, Px, Py, wavelength): every recorded quantity on every surface is an
uninterpreted function of those arguments (sym mode) / a fixed smooth pseudo-random function (conc mode)."""
import numpy as np

QUANT = ('x', 'y', 'z', 'L', 'M', 'N', 'intensity', 'opd')


class StubRays:
    pass


def _bcast(ctx, v, n):
    if isinstance(v, np.ndarray):
        vals = ctx.vals(v)
        if len(vals) == 1 and n > 1:
            vals = vals * n
        return vals
    return [ctx.val(v)] * n


def install_uf_tracer(ctx, o, tag='', positive_intensity=False, calls=None, unit_dirs=False):
    """monkeypatch o.trace / o.trace_generic; returns oracle(q, k, Hx, Hy, Px, Py, w) giving the UF value"""
    from optiland.distribution import create_distribution
    nsurf = o.surface_group.num_surfaces

    def val(q, k, Hx, Hy, Px, Py, w):
        if unit_dirs and q in 'LMN':
            # unit direction with N > 0 built from two uninterpreted slopes
            l, m = (ctx.uf(f'{tag}slope{c}{k}', Hx, Hy, Px, Py, w) for c in 'xy')
            s = ctx.sqrt(1 + l * l + m * m)
            return {'L': l, 'M': m, 'N': 1.0}[q] / s
        v = ctx.uf(f'{tag}{q}{k}', Hx, Hy, Px, Py, w)
        if q == 'intensity' and positive_intensity == 'strict':
            v = 1 + v * v
        elif q == 'intensity' and positive_intensity:
            v = v * v
        return v

    def fill(Hx, Hy, Px, Py, w):
        n = max(np.size(a) for a in (Hx, Hy, Px, Py))
        hx, hy, px, py = (_bcast(ctx, a, n) for a in (Hx, Hy, Px, Py))
        if calls is not None:
            calls.append((hx, hy, px, py, w))
        for k, s in enumerate(o.surface_group.surfaces):
            for q in QUANT:
                setattr(s, q, ctx.arr(*[val(q, k, hx[i], hy[i], px[i], py[i], w) for i in range(n)]))
        r = StubRays()
        last = o.surface_group.surfaces[-1]
        r.x, r.y, r.z, r.L, r.M, r.N, r.i, r.opd = (last.x, last.y, last.z, last.L, last.M, last.N, last.intensity, last.opd)
        r.w = ctx.arr(*[w] * n)
        return r

    def trace(Hx, Hy, wavelength, num_rays=100, distribution='hexapolar'):
        if isinstance(distribution, str):
            d = create_distribution(distribution)
            d.generate_points(num_rays)
        else:
            d = distribution
        return fill(Hx, Hy, d.x, d.y, wavelength)

    def trace_generic(Hx, Hy, Px, Py, wavelength):
        return fill(Hx, Hy, Px, Py, wavelength)

    o.trace = trace
    o.trace_generic = trace_generic
    return val
