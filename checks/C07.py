"""C07 - results transform correctly under symmetries and re-descriptions of the lens (DESIGN §6 C07).

Metamorphic relations decided symbolically: the SAME real code is executed on the original and on the transformed description (both
symbolic in the same variables) and the relation between the two results is the obligation."""
import math

import numpy as np

from symopt.harness import harness
from checks.common import ideal, build_optic
from checks.C01 import snapshot

FUNCS = ['optiland.optic.Optic.scale_system', 'optiland.optic.Optic.set_radius', 'optiland.optic.Optic.set_thickness',
         'optiland.physical_apertures.RadialAperture.scale', 'optiland.optic.Optic.trace_generic', 'optiland.fields.FieldGroup.get_vig_factor',
         'optiland.rays.ray_generator.RayGenerator.generate_rays', 'optiland.surfaces.standard_surface.Surface._trace_real',
         'optiland.geometries.standard.StandardGeometry.distance', 'optiland.geometries.standard.StandardGeometry.surface_normal',
         'optiland.geometries.plane.Plane.distance', 'optiland.rays.real_rays.RealRays.refract', 'optiland.rays.real_rays.RealRays.reflect',
         'optiland.coordinate_system.CoordinateSystem.localize', 'optiland.coordinate_system.CoordinateSystem.globalize',
         'optiland.rays.real_rays.RealRays.rotate_x', 'optiland.rays.real_rays.RealRays.rotate_y', 'optiland.paraxial.Paraxial.f2',
         'optiland.aberrations.Aberrations.seidels']


def rational(ctx, p, q):
    """the exact rational p/q in the symbolic run (its float in the concrete replay)"""
    if ctx.sym:
        import z3
        from symopt.sv import SV
        return SV(t=z3.RealVal(f'{p}/{q}'))
    return np.float64(p) / q


def ray_to_surface_point(ctx, R, k, sl=None, tau=None):
    """a ray that meets the conic (R, k) at a rationally parametrised point P of its sag sheet (chord slope sl from the vertex, azimuth
    atan2(4, 3)), with a rationally parametrised unit direction, started tau before P: one root of the intersection quadratic is then
    rational, so its discriminant is a perfect square and the engine resolves it exactly"""
    if sl is None:
        sl = ctx.real('sl')
        ctx.assume(sl * sl > 1 + k)
    z = 2 * R / (1 + k + sl * sl)
    rho = sl * z
    P = (0.6 * rho, 0.8 * rho, z)
    d = tuple(rational(ctx, p_, 7) for p_ in (2, -3, 6))        # a skew unit vector with rational components
    if tau is None:
        tau = ctx.real('tau', lo=0.01, hi=100.0)
    P0 = tuple(p - tau * c for p, c in zip(P, d))
    return P0, d, P, tau


# ------------------------------------------------------------------------------------------------ scale_system
def lens_numbers(ctx):
    return dict(R1=ctx.real('R1', ne=0), k1=ctx.real('k1', lo=-4.0, hi=2.0), t1=ctx.real('t1', lo=0.1, hi=50.0),
                n1=ctx.real('n1', lo=1.0, hi=4.0), t2=ctx.real('t2', lo=0.1, hi=200.0), epd=ctx.real('epd', lo=0.1, hi=50.0),
                fy=ctx.real('fy', lo=0.1, hi=30.0), ra=ctx.real('ra', lo=0.1, hi=100.0))


def conic_plane_lens(ctx, d, obj_t, s=1.0, na=None):
    """conic + plane singlet with an aperture on the first surface, angular fields; every LENGTH multiplied by s"""
    from optiland.physical_apertures import RadialAperture
    o = build_optic(ctx, [dict(radius=d['R1'] * s, conic=d['k1'], thickness=d['t1'] * s, n=d['n1'], stop=True,
                               aperture=RadialAperture(r_max=d['ra'] * s, r_min=0.0)),
                          dict(radius=np.inf, thickness=d['t2'] * s)],
                    obj_t=(np.inf if obj_t is None else obj_t * s), aperture=(('EPD', d['epd'] * s) if na is None else ('objectNA', na)),
                    field_type='angle', fields=(0.0, d['fy']))
    return o


@harness('C07', 'H1_scale_system', funcs=FUNCS, cases=lambda tier: [dict(obj='inf'), dict(obj='finite'), dict(obj='finite', ap='objectNA')],
         bounds='conic + plane singlet (R, k, thicknesses, index, EPD, aperture radius, field angle symbolic), object at infinity or at a symbolic '
                'finite distance, aperture given as EPD or (finite object) as object-space NA, angular fields; scale factor s in [0.01, 100] symbolic',
         doc='Optic.scale_system(s) produces exactly the lens built with every length multiplied by s: vertex positions (the object too), radii, '
             'conic and indices unchanged, EPD, aperture radii (and which points the aperture lets through); the paraxial focal length of the result is s times the original one')
def h1_scale_system(ctx, obj, ap='EPD'):
    d = lens_numbers(ctx)
    s = ctx.real('s', lo=0.01, hi=100.0)
    t0 = ctx.real('t0', lo=1.0, hi=500.0) if obj == 'finite' else None
    na = ctx.real('na', lo=0.01, hi=0.5) if ap == 'objectNA' else None          # (a numerical aperture is not a length: it must not be scaled)
    px, py = ctx.real('px'), ctx.real('py')
    o = conic_plane_lens(ctx, d, t0, na=na)
    f_before = ctx.val(o.paraxial.f2())
    o.scale_system(s)
    want = conic_plane_lens(ctx, d, t0, s, na=na)
    a, b = snapshot(ctx, o), snapshot(ctx, want)
    ctx.oblige('same_keys', set(a) == set(b))
    for key in b:
        va, vb = a.get(key), b[key]
        if isinstance(vb, (str, bool, int, type(None))) and not isinstance(vb, float):
            ctx.oblige(f'snap_{key}', va == vb)
        elif not ctx.finite(vb) or not ctx.finite(va):
            fa_, fb_ = ctx.val(va), ctx.val(vb)
            ctx.oblige(f'snap_{key}', (not ctx.finite(va)) and (not ctx.finite(vb)) and repr(float(getattr(fa_, 'c', fa_))) == repr(float(getattr(fb_, 'c', fb_))))
        else:
            ctx.oblige(f'snap_{key}', ctx.eq(va, vb))
    for k_, (sa, sb) in enumerate(zip(o.surface_group.surfaces, want.surface_group.surfaces)):
        if sb.aperture is not None:
            ctx.oblige(f'aperture_{k_}', sa.aperture is not None and ctx.And(ctx.eq(sa.aperture.r_max, sb.aperture.r_max), ctx.eq(sa.aperture.r_min, sb.aperture.r_min)))
            if sa.aperture is not None:
                # ... and it BEHAVES like the aperture of the scaled lens: a ray landing at an arbitrary point is kept or removed alike
                from checks.C02 import mkrays
                r1, r2 = (mkrays(ctx, px, py, 0.0, 0.0, 0.0, 1.0) for _ in range(2))
                sa.aperture.clip(r1)
                sb.aperture.clip(r2)
                ctx.oblige(f'aperture_{k_}_clips_like_the_scaled_one', ctx.eq(ctx.val(r1.i), ctx.val(r2.i)))
    fa = ctx.val(o.paraxial.f2())
    if ctx.finite(fa) and ctx.finite(f_before):
        ctx.oblige('focal_length_scales', ctx.eq(fa, s * f_before))
    ctx.observe('s', s)


def cases_step(tier):
    out = [dict(kind='plane'), dict(kind='sphere'), dict(kind='mirror')]
    if tier == 'thorough':
        out += [dict(kind='conic')]
    return out


def make_surface(ctx, kind, R, k, n1, n2, f=1.0):
    from optiland.coordinate_system import CoordinateSystem
    from optiland.geometries import StandardGeometry, Plane
    from optiland.surfaces.standard_surface import Surface
    g = Plane(CoordinateSystem()) if kind == 'plane' else StandardGeometry(CoordinateSystem(), R * f, k)
    return Surface(g, ideal(n1), ideal(n1 if kind == 'mirror' else n2), is_reflective=(kind == 'mirror'))


def step_inputs(ctx, kind):
    if kind == 'plane':
        n1, n2 = ctx.real('n1', lo=1.0, hi=4.0), ctx.real('n2', lo=1.0, hi=4.0)
    else:
        n1, n2 = ctx.const(1.0), ctx.const(1.5)
    if kind == 'plane':
        R, k = None, 0.0
        x0, y0, d0 = ctx.real('x0'), ctx.real('y0'), ctx.real('d0', lo=0.01, hi=100.0)
        u, v = ctx.real('u', lo=-0.4, hi=0.4), ctx.real('v', lo=-0.4, hi=0.4)
        den = 1 + u * u + v * v
        return n1, n2, R, k, (x0, y0, -d0), (2 * u / den, 2 * v / den, (1 - u * u - v * v) / den), None, None
    R = ctx.real('R', ne=0)
    k = ctx.real('k', lo=-4.0, hi=2.0) if kind == 'conic' else 0.0
    P0, d, P, tau = ray_to_surface_point(ctx, R, k)
    return n1, n2, R, k, P0, d, tau, P


@harness('C07', 'H2_scaled_step', funcs=FUNCS, cases=cases_step, max_paths=60,
         bounds='one surface (plane; sphere refracting / reflecting with symbolic R; thorough: conic with symbolic k), ray through a symbolic point of the '
                'sag sheet with symbolic unit direction and start distance; scale s > 0 symbolic',
         doc='multiplying radius, ray position and hence every length by s multiplies the intersection point and the optical path by s and leaves '
             'the direction cosines unchanged (one step; by induction any lens of such surfaces)')
def h2_scaled_step(ctx, kind):
    from checks.C06 import launch
    s = ctx.real('s', lo=0.01, hi=100.0)
    n1, n2, R, k, P0, dirn, tau, P = step_inputs(ctx, kind)
    out = []
    for f in (1.0, s):
        sf = make_surface(ctx, kind, R, k, n1, n2, f)
        rays = launch(ctx, tuple(c * f for c in P0), dirn)
        sf._trace_real(rays)
        out.append([ctx.val(q) for q in (rays.x, rays.y, rays.z, rays.opd, rays.L, rays.M, rays.N)])
    a, b = out
    fin_a, fin_b = all(ctx.finite(q) for q in a), all(ctx.finite(q) for q in b)
    ctx.oblige('lost_together', fin_a == fin_b)
    if fin_a and fin_b:
        for nm, qa, qb in zip(('x', 'y', 'z', 'opd'), a[:4], b[:4]):
            ctx.oblige(f'{nm}_scales', ctx.eq(qb, s * qa))
        for nm, qa, qb in zip(('L', 'M', 'N'), a[4:], b[4:]):
            ctx.oblige(f'{nm}_unchanged', ctx.eq(qb, qa))
    ctx.observe('s', s)


# ------------------------------------------------------------------------------------------------ mirror symmetry
@harness('C07', 'H3_mirror_launch', funcs=FUNCS, cases=lambda tier: [dict(mirror=m, obj=o_) for m in ('x', 'y', 'xy') for o_ in ('inf', 'finite')],
         bounds='real Optic (one spherical surface + image, stop at the surface, 2 fields along y, the second with symbolic vignetting factors), '
                'Optic.trace_generic -> FieldGroup.get_vig_factor -> RayGenerator.generate_rays; symbolic (Hx, Hy, Px, Py); the rays are compared as launched (start point and direction)',
         doc='mirroring the field and pupil coordinates about a meridional plane (x -> -x, y -> -y, or both) mirrors the launched ray: the '
             'mirrored start coordinate and direction cosine change sign, everything else is unchanged')
def h3_mirror_launch(ctx, mirror, obj):
    R1 = ctx.real('R1', ne=0)
    t0 = np.inf if obj == 'inf' else ctx.real('t0', lo=1.0, hi=500.0)
    o = build_optic(ctx, [dict(radius=R1, thickness=ctx.real('t1', lo=0.1, hi=100.0), n=ctx.real('n1', lo=1.0, hi=4.0), stop=True)],
                    obj_t=t0, aperture=('EPD', ctx.real('epd', lo=0.1, hi=20.0)), field_type='angle' if obj == 'inf' else 'object_height', fields=())
    o.add_field(y=0.0)
    o.add_field(y=ctx.real('fy', lo=0.1, hi=30.0), vx=ctx.real('vx', lo=0.0, hi=0.9), vy=ctx.real('vy', lo=0.0, hi=0.9))
    Hx, Hy = ctx.real('Hx', lo=-1.0, hi=1.0), ctx.real('Hy', lo=-1.0, hi=1.0)
    Px, Py = ctx.real('Px', lo=-1.0, hi=1.0), ctx.real('Py', lo=-1.0, hi=1.0)
    ctx.assume(Hx * Hx + Hy * Hy <= 1)
    sx = -1.0 if 'x' in mirror else 1.0
    sy = -1.0 if 'y' in mirror else 1.0
    captured = []
    real_gen = o.ray_generator.generate_rays

    class _Launched(Exception):
        pass

    def capture(*a, **k):
        rays = real_gen(*a, **k)
        captured.append([ctx.val(q) for q in (rays.x, rays.y, rays.z, rays.L, rays.M, rays.N, rays.i, rays.opd)])
        raise _Launched()
    o.ray_generator.generate_rays = capture          # (the launched ray is the object of this harness; the surface steps are H4)
    for args in ((Hx, Hy, Px, Py), (sx * Hx, sy * Hy, sx * Px, sy * Py)):
        try:
            o.trace_generic(*[ctx.arr(q) for q in args], 0.55)
        except _Launched:
            pass
    o.ray_generator.generate_rays = real_gen
    a, b = captured
    sig = (sx, sy, 1.0, sx, sy, 1.0, 1.0, 1.0)
    for nm, qa, qb, sg in zip(('x', 'y', 'z', 'L', 'M', 'N', 'intensity', 'opd'), a, b, sig):
        if ctx.finite(qa) and ctx.finite(qb):
            ctx.oblige(f'{nm}_mirrored', ctx.eq(qb, sg * qa))
        else:
            ctx.oblige(f'{nm}_mirrored', (not ctx.finite(qa)) and (not ctx.finite(qb)))
    ctx.observe('Hy', Hy)


@harness('C07', 'H4_mirror_step', funcs=FUNCS, max_paths=60,
         cases=lambda tier: [dict(kind=k, mirror=m) for k in (('sphere', 'mirror') + (('conic',) if tier == 'thorough' else ())) for m in ('x', 'y')],
         bounds='one rotationally symmetric surface (sphere refracting / reflecting, symbolic R; thorough: conic), ray through a symbolic point of the sag sheet '
                'with symbolic unit direction',
         doc='the surface step commutes with the mirror: tracing the mirrored ray gives the mirrored result (position, direction, path, intensity)')
def h4_mirror_step(ctx, kind, mirror):
    from checks.C06 import launch
    n1, n2, R, k, P0, dirn, tau, P = step_inputs(ctx, kind)
    sx = -1.0 if mirror == 'x' else 1.0
    sy = -1.0 if mirror == 'y' else 1.0
    out = []
    for fx, fy in ((1.0, 1.0), (sx, sy)):
        sf = make_surface(ctx, kind, R, k, n1, n2)
        rays = launch(ctx, (fx * P0[0], fy * P0[1], P0[2]), (fx * dirn[0], fy * dirn[1], dirn[2]))
        sf._trace_real(rays)
        out.append([ctx.val(q) for q in (rays.x, rays.y, rays.z, rays.L, rays.M, rays.N, rays.opd, rays.i)])
    a, b = out
    fin_a, fin_b = all(ctx.finite(q) for q in a), all(ctx.finite(q) for q in b)
    ctx.oblige('lost_together', fin_a == fin_b)
    if fin_a and fin_b:
        for nm, qa, qb, sg in zip(('x', 'y', 'z', 'L', 'M', 'N', 'opd', 'intensity'), a, b, (sx, sy, 1.0, sx, sy, 1.0, 1.0, 1.0)):
            ctx.oblige(f'{nm}_mirrored', ctx.eq(qb, sg * qa))
    ctx.observe('tau', tau if tau is not None else 0.0)


# ------------------------------------------------------------------------------------------------ dummy surface, wavelength
@harness('C07', 'H5_dummy_surface', funcs=FUNCS, max_paths=60, cases=lambda tier: [dict(kind='plane'), dict(kind='sphere')] + ([dict(kind='conic')] if tier == 'thorough' else []),
         bounds='ray in a medium n, a plane dummy surface with the same medium on both sides at a symbolic position between the start point and a '
                'plane / spherical (thorough: conic) refracting surface (all numbers symbolic)',
         doc='inserting a dummy surface between equal media changes nothing downstream: the record on the following surface (point, direction, '
             'optical path, intensity) is the same with and without it')
def h5_dummy(ctx, kind):
    from optiland.coordinate_system import CoordinateSystem
    from optiland.geometries import Plane
    from optiland.surfaces.standard_surface import Surface
    from checks.C06 import launch
    n1, n2, R, k, P0, dirn, tau, P = step_inputs(ctx, kind)
    frac = ctx.real('frac', lo=0.01, hi=0.99)
    out = []
    for with_dummy in (False, True):
        sf = make_surface(ctx, kind, R, k, n1, n2)
        rays = launch(ctx, P0, dirn)
        if with_dummy:
            # a plane a fraction of the way along the ray (in z) towards the surface
            zd = P0[2] + frac * (tau * dirn[2] if tau is not None else -P0[2])
            dummy = Surface(Plane(CoordinateSystem(z=zd)), ideal(n1), ideal(n1))
            dummy._trace_real(rays)
        sf._trace_real(rays)
        out.append([ctx.val(q) for q in (rays.x, rays.y, rays.z, rays.L, rays.M, rays.N, rays.opd, rays.i)])
        if not with_dummy and P is not None:
            # the dummy plane must lie in front of the surface: the point aimed at is the intersection the library takes from the start
            # point (a ray that enters the sphere earlier, nearer to the vertex plane, meets the surface before the dummy plane)
            if not ctx.finite(out[0][2]):
                return
            ctx.assume(ctx.And(ctx.eq(out[0][2], P[2]), ctx.eq(out[0][0], P[0])))
    a, b = out
    fin_a, fin_b = all(ctx.finite(q) for q in a), all(ctx.finite(q) for q in b)
    ctx.oblige('lost_together', fin_a == fin_b)
    if fin_a and fin_b:
        for nm, qa, qb in zip(('x', 'y', 'z', 'L', 'M', 'N', 'opd', 'intensity'), a, b):
            ctx.oblige(f'{nm}_same', ctx.eq(qb, qa))
    ctx.observe('frac', frac)


@harness('C07', 'H6_wavelength', funcs=FUNCS, cases=lambda tier: [dict()],
         bounds='real Optic, plane-parallel plate of a dispersion-free glass (IdealMaterial, symbolic index) + image plane, symbolic field and pupil point; '
                'two symbolic wavelengths',
         doc='changing the wavelength of a dispersion-free lens changes nothing: all ray records are the same at both wavelengths')
def h6_wavelength(ctx):
    o = build_optic(ctx, [dict(radius=np.inf, thickness=ctx.real('t1', lo=0.1, hi=100.0), n=ctx.real('n1', lo=1.0, hi=4.0), stop=True),
                          dict(radius=np.inf, thickness=ctx.real('t2', lo=0.1, hi=100.0))],
                    aperture=('EPD', ctx.real('epd', lo=0.1, hi=20.0)), field_type='angle', fields=(0.0, ctx.real('fy', lo=0.1, hi=30.0)))
    Hy, Px, Py = ctx.real('Hy', lo=-1.0, hi=1.0), ctx.real('Px', lo=-1.0, hi=1.0), ctx.real('Py', lo=-1.0, hi=1.0)
    w1, w2 = ctx.real('w1', lo=0.4, hi=0.7), ctx.real('w2', lo=0.4, hi=0.7)
    recs = []
    for w in (w1, w2):
        o.trace_generic(ctx.arr(0.0), ctx.arr(Hy), ctx.arr(Px), ctx.arr(Py), w)
        sg = o.surface_group
        recs.append([ctx.val(getattr(sg, q)[k_]) for k_ in range(4) for q in ('x', 'y', 'z', 'L', 'M', 'N', 'opd', 'intensity')])
    for i, (qa, qb) in enumerate(zip(*recs)):
        if ctx.finite(qa) and ctx.finite(qb):
            ctx.oblige(f'record_{i}', ctx.eq(qa, qb))
        else:
            ctx.oblige(f'record_{i}', (not ctx.finite(qa)) and (not ctx.finite(qb)))
    ctx.observe('w1', w1)


# ------------------------------------------------------------------------------------------------ tilt about the centre of curvature
@harness('C07', 'H7_tilt_about_centre', funcs=FUNCS, max_paths=60, cases=lambda tier: [dict(axis=a, kind=k) for a in ('x', 'y') for k in ('sphere', 'mirror')],
         bounds='spherical surface (refracting 1 -> 1.5 / reflecting, symbolic R), tilted by the Pythagorean angle atan2(7, 24) = 0.2838 rad about the x or the y '
                'axis THROUGH ITS CENTRE OF CURVATURE (vertex decentred accordingly, frame computed with the library\'s own globalize); ray through a symbolic '
                'point of the sag sheet with the rational unit direction (2,-3,6)/7 and symbolic start distance',
         doc='tilting a spherical surface about its own centre of curvature changes nothing: intersection point, direction after the surface, optical path '
             'and intensity in global coordinates are the same as for the untilted surface')
def h7_tilt(ctx, axis, kind):
    from optiland.coordinate_system import CoordinateSystem
    from optiland.geometries import StandardGeometry
    from optiland.surfaces.standard_surface import Surface
    from optiland.rays import RealRays
    from checks.C06 import launch
    theta = math.atan2(7.0, 24.0)
    if ctx.sym:
        from symopt.sv import register_exact_angle
        register_exact_angle(theta, '24/25', '7/25')
    R = ctx.real('R', ne=0)
    P0, dirn, P, tau = ray_to_surface_point(ctx, R, 0.0)
    n1, n2 = ctx.const(1.0), ctx.const(1.5)
    # vertex of the tilted surface: the centre of curvature C = (0, 0, R) keeps its place
    rot = CoordinateSystem(**{('rx' if axis == 'x' else 'ry'): theta})
    c_loc = launch(ctx, (0.0, 0.0, R), (0.0, 0.0, 1.0))
    rot.globalize(c_loc)
    origin = (0.0 - ctx.val(c_loc.x), 0.0 - ctx.val(c_loc.y), R - ctx.val(c_loc.z))
    out = []
    for tilted in (False, True):
        cs = CoordinateSystem(x=origin[0], y=origin[1], z=origin[2], **{('rx' if axis == 'x' else 'ry'): theta}) if tilted else CoordinateSystem()
        sf = Surface(StandardGeometry(cs, R, 0.0), ideal(n1), ideal(n1 if kind == 'mirror' else n2), is_reflective=(kind == 'mirror'))
        rays = launch(ctx, P0, dirn)
        sf._trace_real(rays)
        out.append([ctx.val(q) for q in (rays.x, rays.y, rays.z, rays.L, rays.M, rays.N, rays.opd, rays.i)])
        if not tilted:
            if not all(ctx.finite(q) for q in out[0]):
                return
            ctx.assume(ctx.And(ctx.eq(out[0][2], P[2]), ctx.eq(out[0][0], P[0])))      # the point aimed at is the one the library takes
            # ... and it also lies on the sag sheet of the TILTED cap (the near hemisphere seen from the tilted vertex): the sphere is
            # mapped onto itself but the cap moves, a ray near its edge can miss it
            probe = launch(ctx, P, (0.0, 0.0, 1.0))
            CoordinateSystem(x=origin[0], y=origin[1], z=origin[2], **{('rx' if axis == 'x' else 'ry'): theta}).localize(probe)
            ctx.assume(ctx.val(probe.z) * R < R * R)
    a, b = out
    fin_b = all(ctx.finite(q) for q in b)
    ctx.oblige('not_lost_when_tilted', fin_b)
    if fin_b:
        for nm, qa, qb in zip(('x', 'y', 'z', 'L', 'M', 'N', 'opd', 'intensity'), a, b):
            ctx.oblige(f'{nm}_same', ctx.eq(qb, qa))
    ctx.observe('tau', tau)
