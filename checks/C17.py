"""C17 - Fresnel coefficients conserve energy; polarization elements obey their algebra (DESIGN §6 C17)."""
import math

import numpy as np

from symopt.harness import harness
from checks.common import ideal
from checks.C02 import unit

FUNCS = ['optiland.jones.JonesFresnel.calculate_matrix', 'optiland.jones.JonesPolarizerH', 'optiland.jones.JonesPolarizerV',
         'optiland.jones.JonesPolarizerL45', 'optiland.jones.JonesPolarizerL135', 'optiland.jones.JonesPolarizerRCP',
         'optiland.jones.JonesPolarizerLCP', 'optiland.jones.JonesLinearDiattenuator', 'optiland.jones.JonesLinearRetarder',
         'optiland.rays.polarized_rays.PolarizedRays.update', 'optiland.rays.polarized_rays.PolarizedRays.update_intensity',
         'optiland.rays.polarized_rays.PolarizedRays._get_3d_electric_field', 'optiland.coatings.BaseCoating._compute_aoi',
         'optiland.rays.real_rays.RealRays.reflect', 'optiland.rays.real_rays.RealRays.refract']


class RaysStub:
    def __init__(self, ctx, w=0.55):
        self.x = ctx.arr(0.0)
        self.w = ctx.arr(w)


def cplx(ctx, v):
    """(re, im) of a value (SC / SV / complex / float)"""
    v = ctx.val(v)
    if type(v).__name__ == 'SC':
        return v.re, v.im
    if isinstance(v, complex) or isinstance(v, np.complexfloating):
        return float(v.real), float(v.imag)
    return v, (ctx.const(0.0) if ctx.sym else 0.0)


def abs2(ctx, v):
    re, im = cplx(ctx, v)
    return re * re + im * im


def ceq(ctx, a, b):
    ar, ai = cplx(ctx, a)
    br, bi = cplx(ctx, b)
    return ctx.And(ctx.eq(ar, br), ctx.eq(ai, bi))


def cmul(ctx, a, b):
    ar, ai = cplx(ctx, a)
    br, bi = cplx(ctx, b)
    return (ar * br - ai * bi, ar * bi + ai * br)


def cadd(ctx, a, b):
    ar, ai = cplx(ctx, a)
    br, bi = cplx(ctx, b)
    return (ar + br, ai + bi)


class C:
    """tiny complex wrapper so tuples flow through cplx()"""


def tup(ctx, t):
    return t


def mat2(ctx, J):
    """upper-left 2x2 block of the (1,3,3) Jones matrix as [[(re,im),..],..]"""
    return [[cplx(ctx, J[0, i, j]) for j in range(2)] for i in range(2)]


def mm2(A, B):
    def mul(a, b):
        return (a[0] * b[0] - a[1] * b[1], a[0] * b[1] + a[1] * b[0])

    def add(a, b):
        return (a[0] + b[0], a[1] + b[1])
    return [[add(mul(A[i][0], B[0][j]), mul(A[i][1], B[1][j])) for j in range(2)] for i in range(2)]


def conjT(A):
    return [[(A[j][i][0], -A[j][i][1]) for j in range(2)] for i in range(2)]


def meq(ctx, A, B, name, approx=False):
    cmp = ctx.approx if approx else ctx.eq
    for i in range(2):
        for j in range(2):
            ctx.oblige(f'{name}_{i}{j}_re', cmp(A[i][j][0], B[i][j][0]))
            ctx.oblige(f'{name}_{i}{j}_im', cmp(A[i][j][1], B[i][j][1]))


@harness('C17', 'H1_fresnel', funcs=FUNCS, cases=lambda tier: [dict(what=w) for w in ('energy', 'brewster', 'normal')],
         bounds='one interface, indices n1, n2 in [1,4] (both symbolic, incident medium not restricted to air), incidence angle in '
                '[0, 90 deg) below the critical angle',
         doc='Fresnel amplitude coefficients conserve energy: R_s + T_s = 1 and R_p + T_p = 1 with T = (n2 cos t / n1 cos i) |t|^2; '
             'r_p = 0 at Brewster\'s angle; R_s = R_p = ((n1-n2)/(n1+n2))^2 at normal incidence')
def h1_fresnel(ctx, what):
    from optiland.jones import JonesFresnel
    n1, n2 = ctx.real('n1', lo=1.0, hi=4.0), ctx.real('n2', lo=1.0, hi=4.0)
    if what == 'normal':
        th = ctx.const(0.0)
    else:
        th = ctx.real('theta', lo=0.0, hi=1.5)
    c, s = ctx.cos(th), ctx.sin(th)
    n = n2 / n1
    rad = n * n - s * s
    ctx.assume(rad > 0)                       # below the critical angle
    if what == 'brewster':
        ctx.assume(ctx.eq(s, n * c))          # tan(theta) = n2/n1
    jf = JonesFresnel(ideal(n1), ideal(n2))
    rays = RaysStub(ctx)
    Jr = jf.calculate_matrix(rays, reflect=True, aoi=ctx.arr(th))
    Jt = jf.calculate_matrix(rays, reflect=False, aoi=ctx.arr(th))
    rs, rp = Jr[0, 0, 0], Jr[0, 1, 1]
    ts, tp = Jt[0, 0, 0], Jt[0, 1, 1]
    root = ctx.sqrt(rad)                      # = n cos(theta_t)
    fac = root / c                            # n2 cos t / (n1 cos i)
    Rs, Rp = abs2(ctx, rs), abs2(ctx, rp)
    Ts, Tp = fac * abs2(ctx, ts), fac * abs2(ctx, tp)
    ctx.observe('Rs', Rs)
    if what == 'energy':
        ctx.oblige('Rs_plus_Ts', ctx.eq(Rs + Ts, 1.0))
        ctx.oblige('Rp_plus_Tp', ctx.eq(Rp + Tp, 1.0))
        for nm, v in (('Rs', Rs), ('Rp', Rp), ('Ts', Ts), ('Tp', Tp)):
            ctx.oblige(f'{nm}_in_unit_interval', ctx.And(ctx.le(0.0, v), ctx.le(v, 1.0)))
        for nm, v in (('rs', rs), ('rp', rp), ('ts', ts), ('tp', tp)):
            ctx.oblige(f'{nm}_real_below_critical_angle', ctx.eq(cplx(ctx, v)[1], 0.0))
    elif what == 'brewster':
        ctx.oblige('rp_vanishes', ctx.eq(Rp, 0.0))
        ctx.oblige('Tp_is_one', ctx.eq(Tp, 1.0))
    else:
        r0 = ((n1 - n2) / (n1 + n2)) * ((n1 - n2) / (n1 + n2))
        ctx.oblige('Rs_normal', ctx.eq(Rs, r0))
        ctx.oblige('Rp_normal', ctx.eq(Rp, r0))
        ctx.oblige('T_normal', ctx.eq(Ts, 1 - r0))


POLARIZERS = {
    'H': ('JonesPolarizerH', (1.0, 0.0), (0.0, 0.0)), 'V': ('JonesPolarizerV', (0.0, 0.0), (1.0, 0.0)),
    'L45': ('JonesPolarizerL45', (1.0, 0.0), (1.0, 0.0)), 'L135': ('JonesPolarizerL135', (1.0, 0.0), (-1.0, 0.0)),
    'RCP': ('JonesPolarizerRCP', (1.0, 0.0), (0.0, -1.0)), 'LCP': ('JonesPolarizerLCP', (1.0, 0.0), (0.0, 1.0)),
}


@harness('C17', 'H2_polarizers', funcs=FUNCS, cases=lambda tier: [dict(kind=k) for k in POLARIZERS],
         bounds='the six named polarizers; arbitrary complex input Jones vector (4 symbolic reals)',
         doc='each polarizer is an idempotent, Hermitian projector that passes its stated state unchanged and extinguishes the '
             'orthogonal state; the output is always proportional to the stated state')
def h2_polarizers(ctx, kind):
    import optiland.jones as jm
    cls, vx, vy = POLARIZERS[kind]
    J = getattr(jm, cls)().calculate_matrix(RaysStub(ctx))
    A = mat2(ctx, J)
    meq(ctx, mm2(A, A), A, 'idempotent')
    meq(ctx, conjT(A), A, 'hermitian')
    z = lambda v: (ctx.const(v[0]), ctx.const(v[1]))
    v = [z(vx), z(vy)]

    def apply(M, vec):
        def mul(a, b):
            return (a[0] * b[0] - a[1] * b[1], a[0] * b[1] + a[1] * b[0])
        return [(mul(M[i][0], vec[0])[0] + mul(M[i][1], vec[1])[0], mul(M[i][0], vec[0])[1] + mul(M[i][1], vec[1])[1]) for i in range(2)]
    out = apply(A, v)
    for i in range(2):
        ctx.oblige(f'passes_stated_state_{i}_re', ctx.eq(out[i][0], v[i][0]))
        ctx.oblige(f'passes_stated_state_{i}_im', ctx.eq(out[i][1], v[i][1]))
    # orthogonal state (-conj(vy), conj(vx))
    w = [(-v[1][0], v[1][1]), (v[0][0], -v[0][1])]
    out = apply(A, w)
    for i in range(2):
        ctx.oblige(f'extinguishes_orthogonal_{i}', ctx.And(ctx.eq(out[i][0], 0.0), ctx.eq(out[i][1], 0.0)))
    # arbitrary input: output proportional to the stated state (cross product zero)
    e = [(ctx.real('exr'), ctx.real('exi')), (ctx.real('eyr'), ctx.real('eyi'))]
    out = apply(A, e)

    def mul(a, b):
        return (a[0] * b[0] - a[1] * b[1], a[0] * b[1] + a[1] * b[0])
    cr = (mul(out[0], v[1])[0] - mul(out[1], v[0])[0], mul(out[0], v[1])[1] - mul(out[1], v[0])[1])
    ctx.oblige('output_proportional_to_state', ctx.And(ctx.eq(cr[0], 0.0), ctx.eq(cr[1], 0.0)))
    ctx.oblige('z_component_untouched', ceq(ctx, J[0, 2, 2], 1.0))
    ctx.observe('a00', A[0][0][0])


def rot(ctx, t):
    c, s = ctx.cos(t), ctx.sin(t)
    z = ctx.const(0.0)
    return [[(c, z), (-s, z)], [(s, z), (c, z)]]


@harness('C17', 'H3_retarder', funcs=FUNCS, cases=lambda tier: [dict(kind=k) for k in ('linear', 'quarter', 'half')],
         bounds='linear retarder with symbolic retardance and fast-axis angle (quarter- and half-wave: symbolic angle)',
         doc='retarders are unitary, have the stated retardance between the eigen-axes, and the element at angle theta is the rotation '
             'R(theta) J(0) R(-theta) of the element at angle 0')
def h3_retarder(ctx, kind):
    import optiland.jones as jm
    th = ctx.real('theta', lo=-1.5, hi=1.5)
    approx = kind != 'linear'      # quarter/half wave: the code carries the rounded constants cos(pi/4), sin(pi/2), ...
    if kind == 'linear':
        hd = ctx.real('half_delta', lo=0.0, hi=1.5)
        d = 2 * hd
        el, el0 = jm.JonesLinearRetarder(d, th), jm.JonesLinearRetarder(d, 0.0)
    elif kind == 'quarter':
        el, el0 = jm.JonesQuarterWaveRetarder(th), jm.JonesQuarterWaveRetarder(0.0)
    else:
        el, el0 = jm.JonesHalfWaveRetarder(th), jm.JonesHalfWaveRetarder(0.0)
    A = mat2(ctx, el.calculate_matrix(RaysStub(ctx)))
    A0 = mat2(ctx, el0.calculate_matrix(RaysStub(ctx)))
    one, zero = ctx.const(1.0), ctx.const(0.0)
    I = [[(one, zero), (zero, zero)], [(zero, zero), (one, zero)]]
    meq(ctx, mm2(conjT(A), A), I, 'unitary', approx)
    meq(ctx, mm2(mm2(rot(ctx, th), A0), rot(ctx, -th)), A, 'rotation_of_element_at_0', approx)
    # element at 0: diagonal, phase difference = retardance
    ctx.oblige('axis_element_diagonal', ctx.And(ctx.approx(A0[0][1][0], 0.0), ctx.approx(A0[0][1][1], 0.0)))
    if kind == 'linear':
        # A0[1][1] / A0[0][0] = exp(i delta)
        ph = mm2([[A0[1][1], (zero, zero)], [(zero, zero), (one, zero)]], [[(A0[0][0][0], -A0[0][0][1]), (zero, zero)], [(zero, zero), (one, zero)]])[0][0]
        ctx.oblige('retardance_re', ctx.eq(ph[0], ctx.cos(d)))
        ctx.oblige('retardance_im', ctx.eq(ph[1], ctx.sin(d)))
    ctx.observe('a00', A[0][0][0])


@harness('C17', 'H3_diattenuator', funcs=FUNCS, cases=lambda tier: [dict()],
         bounds='linear diattenuator with symbolic t_min <= t_max in [0,1] and symbolic angle',
         doc='the diattenuator at angle theta is R(theta) diag(t_max, t_min) R(-theta); at theta = 0 it is diagonal')
def h3_diattenuator(ctx):
    import optiland.jones as jm
    th = ctx.real('theta', lo=-1.5, hi=1.5)
    tmin = ctx.real('tmin', lo=0.0, hi=1.0)
    tmax = tmin + ctx.real('dt', lo=0.0, hi=1.0)
    A = mat2(ctx, jm.JonesLinearDiattenuator(tmin, tmax, th).calculate_matrix(RaysStub(ctx)))
    z = ctx.const(0.0)
    D = [[(tmax, z), (z, z)], [(z, z), (tmin, z)]]
    meq(ctx, mm2(mm2(rot(ctx, th), D), rot(ctx, -th)), A, 'rotation_of_diagonal_element')
    ctx.observe('a01', A[0][1][0])


def cases_frames(tier):
    return [dict(kind='reflect', skew=False), dict(kind='refract', skew=False)] + \
        ([dict(kind='reflect', skew=True), dict(kind='refract', skew=True)] if tier == 'thorough' else [])


@harness('C17', 'H4_uncoated_step', cases=cases_frames, funcs=FUNCS, timeout=1200,
         bounds='one uncoated surface step of a polarized ray: meridional incidence (direction and normal in the y-z plane; thorough: '
                'skew), mirror or refracting interface with symbolic indices; all six named input states',
         doc='without coatings the polarization ray trace preserves |E|^2 for every input state and the propagated field is '
             'transverse to the outgoing ray')
def h4_uncoated(ctx, kind, skew):
    from optiland.rays import PolarizedRays, create_polarization
    if skew:
        d = unit(ctx, 'd', 1, strict=True)
        n = unit(ctx, 'n', -1, strict=True)
    else:
        m = ctx.real('dy', lo=-0.9, hi=0.9)
        d = (ctx.const(0.0), m, ctx.sqrt(1 - m * m))
        q = ctx.real('ny', lo=-0.9, hi=0.9)
        n = (ctx.const(0.0), q, -ctx.sqrt(1 - q * q))
    cosi = d[0] * n[0] + d[1] * n[1] + d[2] * n[2]
    ctx.assume(ctx.Not(cosi == 0))
    rays = PolarizedRays(ctx.arr(0.0), ctx.arr(0.0), ctx.arr(0.0), ctx.arr(d[0]), ctx.arr(d[1]), ctx.arr(d[2]), ctx.arr(1.0), ctx.arr(0.55))
    if kind == 'reflect':
        rays.reflect(ctx.arr(n[0]), ctx.arr(n[1]), ctx.arr(n[2]))
    else:
        n1, n2 = ctx.real('n1', lo=1.0, hi=2.0), ctx.real('n2', lo=1.0, hi=2.0)
        rays.refract(ctx.arr(n[0]), ctx.arr(n[1]), ctx.arr(n[2]), n1, n2)
    k1 = (ctx.val(rays.L), ctx.val(rays.M), ctx.val(rays.N))
    if not all(ctx.finite(v) for v in k1):
        return      # total internal reflection
    rays.update()
    for name in (('H', 'V', 'L+45', 'RCP') if (ctx.tier == 'thorough' or kind == 'reflect') else ('H', 'V')):
        st = create_polarization(name)
        E0 = rays._get_3d_electric_field(st)
        E1 = rays.get_output_field(E0)
        e0 = [E0[0, i] for i in range(3)]
        e1 = [E1[0, i] for i in range(3)]
        p0 = abs2(ctx, e0[0]) + abs2(ctx, e0[1]) + abs2(ctx, e0[2])
        p1 = abs2(ctx, e1[0]) + abs2(ctx, e1[1]) + abs2(ctx, e1[2])
        ctx.oblige(f'{name}:input_unit_power', ctx.eq(p0, 1.0) if name in ('H', 'V') else ctx.approx(p0, 1.0))
        if kind == 'reflect' or ctx.tier == 'thorough':     # (refraction: the norm identity over two square roots needs the thorough budget)
            ctx.oblige(f'{name}:power_preserved', ctx.eq(p1, p0))
        dr = cplx(ctx, e1[0])[0] * k1[0] + cplx(ctx, e1[1])[0] * k1[1] + cplx(ctx, e1[2])[0] * k1[2]
        di = cplx(ctx, e1[0])[1] * k1[0] + cplx(ctx, e1[1])[1] * k1[1] + cplx(ctx, e1[2])[1] * k1[2]
        ctx.oblige(f'{name}:transverse_re', ctx.eq(dr, 0.0))
        ctx.oblige(f'{name}:transverse_im', ctx.eq(di, 0.0))
    if kind == 'reflect' or ctx.tier == 'thorough':
        rays.update_intensity(create_polarization('H'))
        ctx.oblige('intensity_preserved', ctx.eq(rays.i, 1.0))
    ctx.observe('N1', k1[2])


@harness('C17', 'H5_unpolarized_mean', funcs=FUNCS, cases=lambda tier: [dict()], timeout=900, tiers=('thorough',),
         bounds='one coated surface step (Jones matrix diag(s, p, 1) with symbolic real s, p in [0,1]) at meridional incidence; the '
                'orthonormal input pair rotated by an arbitrary angle alpha',
         doc='the unpolarized intensity equals the mean of the intensities of ANY two orthogonal input states')
def h5_unpolarized(ctx):
    from optiland.rays import PolarizedRays, PolarizationState
    m = ctx.real('dy', lo=-0.9, hi=0.9)
    d = (ctx.const(0.0), m, ctx.sqrt(1 - m * m))
    q = ctx.real('ny', lo=-0.9, hi=0.9)
    n = (ctx.const(0.0), q, -ctx.sqrt(1 - q * q))
    ctx.assume(ctx.Not(d[1] * n[1] + d[2] * n[2] == 0))
    s_, p_ = ctx.real('s', lo=0.0, hi=1.0), ctx.real('p', lo=0.0, hi=1.0)
    i0 = ctx.real('i0', lo=0.1, hi=1.0)

    def run(state):
        rays = PolarizedRays(ctx.arr(0.0), ctx.arr(0.0), ctx.arr(0.0), ctx.arr(d[0]), ctx.arr(d[1]), ctx.arr(d[2]), ctx.arr(i0), ctx.arr(0.55))
        rays.reflect(ctx.arr(n[0]), ctx.arr(n[1]), ctx.arr(n[2]))
        J = np.zeros((1, 3, 3), dtype=complex) if not ctx.sym else None
        if ctx.sym:
            from symopt.facade import NPX
            J = NPX.zeros((1, 3, 3), dtype=complex)
        J[0, 0, 0] = s_
        J[0, 1, 1] = p_
        J[0, 2, 2] = 1.0
        rays.update(J)
        rays.update_intensity(state)
        return ctx.val(rays.i)
    unpol = run(PolarizationState(is_polarized=False))
    al = ctx.real('alpha', lo=-3.0, hi=3.0)
    ca, sa = ctx.cos(al), ctx.sin(al)
    Ia = run(PolarizationState(True, Ex=ca, Ey=sa, phase_x=0.0, phase_y=0.0))
    Ib = run(PolarizationState(True, Ex=-sa, Ey=ca, phase_x=0.0, phase_y=0.0))
    ctx.oblige('unpolarized_is_mean_of_orthogonal_pair', ctx.eq(unpol, i0 * (Ia + Ib) / 2))
    ctx.oblige('never_more_than_input', ctx.le(unpol, i0))
    ctx.observe('unpol', unpol)


@harness('C17', 'H6_aoi', funcs=FUNCS, cases=lambda tier: [dict()],
         bounds='arbitrary unit pre-surface direction and unit normal',
         doc='the angle of incidence handed to the Fresnel matrices has cos = |d0 . n| (computed from the direction before the surface)')
def h6_aoi(ctx):
    from optiland.coatings import SimpleCoating
    d = unit(ctx, 'd', 1)
    n = unit(ctx, 'n', -1)

    class R:
        pass
    r = R()
    r.L0, r.M0, r.N0 = ctx.arr(d[0]), ctx.arr(d[1]), ctx.arr(d[2])
    aoi = SimpleCoating(1.0)._compute_aoi(r, ctx.arr(n[0]), ctx.arr(n[1]), ctx.arr(n[2]))
    dot = d[0] * n[0] + d[1] * n[1] + d[2] * n[2]
    ctx.oblige('cos_aoi', ctx.eq(ctx.cos(ctx.val(aoi)), ctx.abs(dot)))
    ctx.observe('cos', ctx.cos(ctx.val(aoi)))


@harness('C17', 'H7_matrix_accumulation', funcs=FUNCS, cases=lambda tier: [dict()],
         bounds='one ray, three fixed rational unit directions (2,-3,6)/7 -> (3,6,2)/7 -> (6,2,-3)/7 whose planes of incidence differ (a skew path), '
                'two surface interactions with arbitrary (symbolic, real) Jones matrices',
         doc='the polarization matrix of a ray after two surfaces is P_2 P_1 (the later surface acts on the field that left the earlier one): '
             'PolarizedRays.update accumulates on the left')
def h7_accumulation(ctx):
    from optiland.rays import PolarizedRays

    def dirs(v):
        return [np.float64(c) / 7 for c in v]
    k = [dirs((2, -3, 6)), dirs((3, 6, 2)), dirs((6, 2, -3))]

    def jones(tag):
        a, b, c, d = (ctx.real(f'{tag}{q}', lo=-2.0, hi=2.0) for q in 'abcd')
        if ctx.sym:
            from symopt.facade import oarr
            m = np.empty((1, 3, 3), dtype=object)
            vals = [[a, b, 0.0], [c, d, 0.0], [0.0, 0.0, 1.0]]
            for i in range(3):
                for j in range(3):
                    m[0, i, j] = ctx.const(vals[i][j]) if isinstance(vals[i][j], float) else vals[i][j]
            return oarr(m)
        return np.array([[[a, b, 0.0], [c, d, 0.0], [0.0, 0.0, 1.0]]], dtype=float)

    def fresh(kin):
        return PolarizedRays(ctx.arr(0.0), ctx.arr(0.0), ctx.arr(0.0), ctx.arr(kin[0]), ctx.arr(kin[1]), ctx.arr(kin[2]), ctx.arr(1.0), ctx.arr(0.55))

    def step(rays, kin, kout, J):
        rays.L0, rays.M0, rays.N0 = ctx.arr(kin[0]), ctx.arr(kin[1]), ctx.arr(kin[2])
        rays.L, rays.M, rays.N = ctx.arr(kout[0]), ctx.arr(kout[1]), ctx.arr(kout[2])
        rays.update(J)
    J1, J2 = jones('p'), jones('q')
    r = fresh(k[0])
    step(r, k[0], k[1], J1)
    P1 = [[ctx.val(r.p[0, i, j]) for j in range(3)] for i in range(3)]
    step(r, k[1], k[2], J2)
    P21 = [[ctx.val(r.p[0, i, j]) for j in range(3)] for i in range(3)]
    r2 = fresh(k[1])
    step(r2, k[1], k[2], J2)
    P2 = [[ctx.val(r2.p[0, i, j]) for j in range(3)] for i in range(3)]
    for i in range(3):
        for j in range(3):
            want = P2[i][0] * P1[0][j] + P2[i][1] * P1[1][j] + P2[i][2] * P1[2][j]
            ctx.oblige(f'accumulated_{i}{j}', ctx.eq(P21[i][j], want))
    # the two surface matrices do not commute on this path (otherwise the order could not be observed)
    comm = P2[0][0] * P1[0][1] + P2[0][1] * P1[1][1] + P2[0][2] * P1[2][1] - (P1[0][0] * P2[0][1] + P1[0][1] * P2[1][1] + P1[0][2] * P2[2][1])
    ctx.observe('commutator_01', comm)
