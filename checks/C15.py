"""C15 - tolerancing reports true perturbed performance and restores the nominal lens (DESIGN §6 C15)."""
import numpy as np

from symopt.harness import harness
from checks.C01 import make_lens, snapshot, frame
from checks.C14 import uf_operands, make_stub, STUBS as C14_STUBS

FUNCS = ['optiland.tolerancing.core.Tolerancing', 'optiland.tolerancing.perturbation.Perturbation',
         'optiland.tolerancing.perturbation.RangeSampler', 'optiland.tolerancing.perturbation.ScalarSampler',
         'optiland.tolerancing.perturbation.DistributionSampler', 'optiland.tolerancing.sensitivity_analysis.SensitivityAnalysis.run',
         'optiland.tolerancing.monte_carlo.MonteCarlo.run', 'optiland.tolerancing.compensator.CompensatorOptimizer',
         'optiland.optimization.variable.variable.Variable.reset']
STUBS = ['operands -> uninterpreted functions of the prescription', 'pandas.DataFrame -> plain list of row dicts (sym mode)',
         'numpy.random.seed/normal/uniform -> seeded: value = uninterpreted function of (seed, draw index); unseeded: arbitrary value',
         C14_STUBS[0]]


class Frame(list):
    """stand-in for pandas.DataFrame in sym mode"""

    def __init__(self, rows=()):
        super().__init__(rows if rows is not None else ())


def rows(res):
    if isinstance(res, list):
        return list(res)
    return res.to_dict('records')


def sym_setup():
    import optiland.tolerancing.sensitivity_analysis as sa
    import optiland.tolerancing.monte_carlo as mc

    class PD:
        DataFrame = Frame
    sa.pd = PD
    mc.pd = PD


def opval(ctx, name, R1, R2, z2, z3, n1):
    return ctx.uf(name, R1, R2, z2, z3, n1)


def lens(ctx):
    o, sp = make_lens(ctx, ('standard', 'standard'), 'inf', None, stops=1, concrete=dict(k1=0.0, k2=0.0))
    return o, sp


def tol_setup(ctx, o):
    from optiland.tolerancing import Tolerancing
    uf_operands(ctx)
    t = Tolerancing(o)
    t.add_operand('ufA', input_data={'optic': o})
    t.add_operand('ufB', input_data={'optic': o}, target=ctx.real('tgtB'), weight=ctx.real('wB', lo=0.0, hi=5.0))
    return t


def oracle_ops(ctx, sp, R1=None, t1=None, z_shift=None):
    """operand values of the lens with the given overrides"""
    R1 = sp['R'][0] if R1 is None else R1
    t1_ = sp['t'][0] if t1 is None else t1
    z2 = t1_
    z3 = t1_ + sp['t'][1]
    return [opval(ctx, nm, R1, sp['R'][1], z2, z3, sp['n'][0]) for nm in ('ufA', 'ufB')]


@harness('C15', 'H1_sensitivity', funcs=FUNCS, stubs=STUBS, cases=lambda tier: [dict(steps=2), dict(steps=3)],
         bounds='K=2 lens with symbolic numbers; two perturbations (radius of surface 1, thickness of surface 1) with RangeSamplers of '
                '2-3 steps and symbolic end points; two operands = uninterpreted functions; no compensator',
         doc='every recorded row = operands evaluated on the nominal lens carrying only the recorded perturbation; after run() the lens is nominal')
def h1_sensitivity(ctx, steps):
    from optiland.tolerancing.perturbation import RangeSampler
    from optiland.tolerancing.sensitivity_analysis import SensitivityAnalysis
    o, sp = lens(ctx)
    t = tol_setup(ctx, o)
    a1, b1 = ctx.real('ra', ne=0), ctx.real('rb', ne=0)
    a2, b2 = ctx.real('ta'), ctx.real('tb')
    t.add_perturbation('radius', RangeSampler(a1, b1, steps), surface_number=1)
    t.add_perturbation('thickness', RangeSampler(a2, b2, steps), surface_number=1)
    nominal = snapshot(ctx, o)
    sa = SensitivityAnalysis(t)
    sa.run()
    rs = rows(sa.get_results())
    ctx.oblige('row_count', len(rs) == 2 * steps)
    names = sa.operand_names
    for i, row in enumerate(rs[:2 * steps]):
        k = i % steps
        frac = k / (steps - 1)
        if i < steps:
            v = a1 + (b1 - a1) * frac if k < steps - 1 else b1
            if k == 0:
                v = a1
            want = oracle_ops(ctx, sp, R1=v)
        else:
            v = a2 + (b2 - a2) * frac if k < steps - 1 else b2
            if k == 0:
                v = a2
            want = oracle_ops(ctx, sp, t1=v)
        ctx.oblige(f'row{i}_perturbation_value', ctx.eq(row['perturbation_value'], v))
        for nm, w_ in zip(names, want):
            ctx.oblige(f'row{i}_{nm[:6]}', ctx.eq(row[nm], w_))
    frame(ctx, nominal, snapshot(ctx, o), set(), tag='_after_run')
    ctx.observe('R1_after', o.surface_group.radii[1])


def install_rng(ctx, mod):
    """stub of numpy.random inside optiland.tolerancing.perturbation"""
    state = dict(seed=None, n=0, fresh=0)

    class RNG:
        @staticmethod
        def seed(s):
            state['seed'] = s
            state['n'] = 0

        @staticmethod
        def _draw(kind):
            if state['seed'] is None:
                state['fresh'] += 1
                return ctx.real(f'unseeded_{kind}_{state["fresh"]}')
            state['n'] += 1
            return ctx.uf('rng_' + kind, state['seed'], state['n'])

        @staticmethod
        def normal(loc=0.0, scale=1.0, **k):
            return loc + scale * RNG._draw('normal')

        @staticmethod
        def uniform(low=0.0, high=1.0, **k):
            return low + (high - low) * RNG._draw('uniform')

    class NPshim:
        random = RNG

        def __getattr__(self, a):
            return getattr(mod._np_orig, a)
    if not hasattr(mod, '_np_orig'):
        mod._np_orig = mod.np
    mod.np = NPshim()
    return state


@harness('C15', 'H2_monte_carlo', funcs=FUNCS, stubs=STUBS, cases=lambda tier: [dict(trials=1), dict(trials=2)],
         bounds='K=2 lens; two perturbations (radius: ScalarSampler with a symbolic value; thickness: unseeded DistributionSampler = '
                'arbitrary value per trial); 1-2 trials; no compensator',
         doc='every Monte-Carlo row = operands evaluated on the nominal lens carrying exactly the recorded perturbation values; when '
             'the run completes the lens is back at its nominal prescription')
def h2_monte_carlo(ctx, trials):
    import optiland.tolerancing.perturbation as pm
    from optiland.tolerancing.perturbation import ScalarSampler, DistributionSampler
    from optiland.tolerancing.monte_carlo import MonteCarlo
    o, sp = lens(ctx)
    t = tol_setup(ctx, o)
    install_rng(ctx, pm)
    rv_ = ctx.real('Rpert', ne=0)
    t.add_perturbation('radius', ScalarSampler(rv_), surface_number=1)
    t.add_perturbation('thickness', DistributionSampler('normal', loc=sp['t'][0], scale=ctx.real('sigma', lo=0.0, hi=2.0)), surface_number=1)
    nominal = snapshot(ctx, o)
    mc = MonteCarlo(t)
    mc.run(trials)
    rs = rows(mc.get_results())
    ctx.oblige('row_count', len(rs) == trials)
    names = mc.operand_names
    for i, row in enumerate(rs[:trials]):
        keyR = [k for k in row if 'Radius' in k][0]
        keyT = [k for k in row if 'Thickness' in k][0]
        ctx.oblige(f'row{i}_radius_recorded', ctx.eq(row[keyR], rv_))
        want = oracle_ops(ctx, sp, R1=row[keyR], t1=row[keyT])
        for nm, w_ in zip(names, want):
            ctx.oblige(f'row{i}_{nm[:6]}', ctx.eq(row[nm], w_))
    frame(ctx, nominal, snapshot(ctx, o), set(), tag='_after_run')
    t.reset()
    frame(ctx, nominal, snapshot(ctx, o), set(), tag='_after_reset')
    ctx.observe('R1_after', o.surface_group.radii[1])


@harness('C15', 'H3_compensated', funcs=FUNCS, stubs=STUBS, cases=lambda tier: [dict(kind='sensitivity'), dict(kind='monte_carlo')],
         bounds='K=2 lens; one radius perturbation; compensator = thickness of surface 2 optimised by the stubbed scipy (1 further '
                'evaluation); 1-2 trials',
         doc='recorded operands = operands of (nominal + recorded perturbation) with the compensator at its recorded value; the '
             'compensator is reset before every trial and the lens is nominal after the run')
def h3_compensated(ctx, kind):
    import optiland.optimization.optimization as om
    from optiland.tolerancing.perturbation import RangeSampler, ScalarSampler
    from optiland.tolerancing.sensitivity_analysis import SensitivityAnalysis
    from optiland.tolerancing.monte_carlo import MonteCarlo
    o, sp = lens(ctx)
    t = tol_setup(ctx, o)
    log = []
    om.optimize = make_stub(ctx, 1, log)
    t.add_compensator('thickness', surface_number=2)
    nominal = snapshot(ctx, o)
    if kind == 'sensitivity':
        a1 = ctx.real('ra', ne=0)
        t.add_perturbation('radius', RangeSampler(a1, a1, 1), surface_number=1)
        an = SensitivityAnalysis(t)
        an.run()
    else:
        a1 = ctx.real('Rpert', ne=0)
        t.add_perturbation('radius', ScalarSampler(a1), surface_number=1)
        an = MonteCarlo(t)
        an.run(1)
    rs = rows(an.get_results())
    row = rs[0]
    # "followed by the same compensation": the compensating optimisation runs in EVERY trial, also when the sampled perturbation happens
    # to equal the nominal value (the operand targets need not be the nominal operand values)
    ran = len(log) >= 1 and len(log[0]['points']) >= 1
    ctx.oblige('compensation_ran_in_the_trial', ran)
    if not ran:
        return
    ckey = [k for k in row if k.startswith('C0')][0]
    comp = ctx.val(row[ckey])                      # optimiser-space value of the compensator (scaled thickness)
    t2 = (comp + 1.0) * 10.0
    z3 = sp['t'][0] + t2
    want = [opval(ctx, nm, a1, sp['R'][1], sp['t'][0], z3, sp['n'][0]) for nm in ('ufA', 'ufB')]
    for nm, w_ in zip(an.operand_names, want):
        ctx.oblige(f'row_{nm[:6]}', ctx.eq(row[nm], w_))
    # the compensator started from its nominal value in this trial
    x0 = log[0]['points'][0][0]
    ctx.oblige('compensator_started_nominal', ctx.eq(x0, sp['t'][1] / 10.0 - 1.0))
    frame(ctx, nominal, snapshot(ctx, o), set(), tag='_after_run')
    ctx.observe('comp', comp)


@harness('C15', 'H4_nominal_perturbation', funcs=FUNCS, stubs=STUBS, cases=lambda tier: [dict()],
         bounds='K=2 lens; radius perturbation whose value equals the nominal radius',
         doc='a perturbation equal to the nominal value reproduces the nominal operand values (= the default targets)')
def h4_nominal(ctx):
    from optiland.tolerancing.perturbation import ScalarSampler
    from optiland.tolerancing.monte_carlo import MonteCarlo
    o, sp = lens(ctx)
    t = tol_setup(ctx, o)
    t.add_perturbation('radius', ScalarSampler(sp['R'][0]), surface_number=1)
    mc = MonteCarlo(t)
    mc.run(1)
    row = rows(mc.get_results())[0]
    nom = oracle_ops(ctx, sp)
    for nm, w_ in zip(mc.operand_names, nom):
        ctx.oblige(f'nominal_{nm[:6]}', ctx.eq(row[nm], w_))
    ctx.oblige('default_target_is_nominal', ctx.eq(t.operands[0].target, nom[0]))
    ctx.observe('v', row[mc.operand_names[0]])


@harness('C15', 'H5_samplers', funcs=FUNCS, stubs=STUBS, cases=lambda tier: [dict(what='range'), dict(what='seeded', seed=0),
                                                                                dict(what='seeded', seed=7), dict(what='scalar')],
         bounds='RangeSampler with 3 steps drawn 7 times; two DistributionSamplers built with the same seed (0 and 7), 3 draws each',
         doc='RangeSampler cycles through its linspace values; seeded samplers reproduce their sequence; ScalarSampler is constant')
def h5_samplers(ctx, what, seed=None):
    import optiland.tolerancing.perturbation as pm
    if what == 'range':
        a, b = ctx.real('a'), ctx.real('b')
        s = pm.RangeSampler(a, b, 3)
        want = [a, a + (b - a) / 2, b]
        for i in range(7):
            ctx.oblige(f'draw{i}', ctx.eq(s.sample(), want[i % 3]))
        ctx.oblige('size', s.size == 3)
    elif what == 'scalar':
        v = ctx.real('v')
        s = pm.ScalarSampler(v)
        for i in range(3):
            ctx.oblige(f'draw{i}', ctx.eq(s.sample(), v))
    else:
        install_rng(ctx, pm)
        lo, hi = ctx.real('lo'), ctx.real('hi')
        s1 = pm.DistributionSampler('uniform', seed=seed, low=lo, high=hi)
        d1 = [s1.sample() for _ in range(3)]
        s2 = pm.DistributionSampler('uniform', seed=seed, low=lo, high=hi)
        d2 = [s2.sample() for _ in range(3)]
        for i in range(3):
            ctx.oblige(f'reproducible_{i}', ctx.eq(d1[i], d2[i]))
        ctx.observe('d0', d1[0])


@harness('C15', 'H6_reset', funcs=FUNCS, stubs=STUBS, cases=lambda tier: [dict()],
         bounds='K=2 lens; perturbations of every variable family usable on it (radius, conic, thickness, index, tilt, decenter) applied '
                'with symbolic values, then Tolerancing.reset()',
         doc='reset() restores the nominal prescription whatever was perturbed')
def h6_reset(ctx):
    from optiland.tolerancing.perturbation import ScalarSampler
    o, sp = lens(ctx)
    t = tol_setup(ctx, o)
    nominal = snapshot(ctx, o)
    t.add_perturbation('radius', ScalarSampler(ctx.real('pR', ne=0)), surface_number=1)
    t.add_perturbation('conic', ScalarSampler(ctx.real('pk')), surface_number=2)
    t.add_perturbation('thickness', ScalarSampler(ctx.real('pt')), surface_number=1)
    t.add_perturbation('index', ScalarSampler(ctx.real('pn', lo=1.0, hi=4.0)), surface_number=1, wavelength=0.55)
    t.add_perturbation('tilt', ScalarSampler(ctx.real('prx', lo=-0.5, hi=0.5)), surface_number=2, axis='x')
    t.add_perturbation('decenter', ScalarSampler(ctx.real('pdy')), surface_number=2, axis='y')
    for p in t.perturbations:
        p.apply()
    t.reset()
    frame(ctx, nominal, snapshot(ctx, o), set(), tag='_after_reset')
    ctx.observe('R1', o.surface_group.radii[1])
