import sys; sys.path.insert(0,'/repo')
import warnings; warnings.filterwarnings('ignore')
import sym0
from sym0 import *
import numpy as np, z3, time
from optiland.geometries.standard import StandardGeometry
from optiland.coordinate_system import CoordinateSystem
from optiland.rays.real_rays import RealRays
X=dict((n,z3.Real(n)) for n in 'x y z L M N R k'.split())
base=[X['L']**2+X['M']**2+X['N']**2==1, X['R']!=0]
def harness():
    sym0.E.base=base
    x,y,z,L,M,N=[arr(n) for n in 'x y z L M N'.split()]
    Rr=Sym(X['R']); k=Sym(X['k'])
    rays=RealRays.__new__(RealRays)
    rays.x,rays.y,rays.z,rays.L,rays.M,rays.N=x,y,z,L,M,N
    g=StandardGeometry(CoordinateSystem(),Rr,k)
    t=g.distance(rays)
    if not isinstance(t[0],Sym): return ('nonfinite',t[0])
    t=t[0].t
    px,py,pz=X['x']+t*X['L'],X['y']+t*X['M'],X['z']+t*X['N']
    F=px*px+py*py+(1+X['k'])*pz*pz-2*X['R']*pz
    return ('sym',F==0, t>=0)
res=explore(harness)
sympaths=[r for r in res if r[3] and r[3][0]=='sym']
tr,pc,defs,out,st=sympaths[0]
print('pc:');[print('  ',z3.simplify(p)) for p in pc]
print('defs:',defs)
# variant 1: defs only + div guards (the != 0 conditions in pc)
eqs=[p for p in pc if z3.is_not(p) and z3.is_eq(p.arg(0))]+[p for p in pc if z3.is_distinct(p)]
print('guards',eqs)
for name,ass in (('defs+neqguards',defs+eqs),('defs+pc-nobase',defs+pc),):
    r=solve(ass+[z3.Not(out[1])],timeout=60); print(name,r)
