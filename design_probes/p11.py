import sys; sys.path.insert(0,'/repo')
import warnings; warnings.filterwarnings('ignore')
import sym1
from sym1 import *
from ratnf import *
import numpy as np, z3, time
from optiland.coordinate_system import CoordinateSystem
from optiland.rays.real_rays import RealRays
sym1.install()
V=dict((n,z3.Real(n)) for n in 'x y z L M N dx dy dz rx ry rz'.split())
base=[]
def harness():
    rays=RealRays(0.,0.,0.,0.,0.,1.,1.,0.55)
    for n in 'xyzLMN': setattr(rays,n,sarr(n))
    cs=CoordinateSystem(SV(t=V['dx']),SV(t=V['dy']),SV(t=V['dz']),SV(t=V['rx']),SV(t=V['ry']),SV(t=V['rz']))
    cs.localize(rays)
    loc=[getattr(rays,n)[0] for n in 'xyzLMN']
    cs.globalize(rays)
    return loc,[getattr(rays,n)[0] for n in 'xyzLMN'], None
t0=time.time()
res=explore(harness, base)
print(len(res),'paths',time.time()-t0)
for r in res:
    loc,glob,memo=r['out']
    print(r['trace'])
    for i,n in enumerate('xyzLMN'):
        ob=glob[i].term()==V[n]
        print('  roundtrip',n,prove(ob,r['pc'],r['defs'],base,timeout=60)); sys.stdout.flush()
    # norm preservation of direction, and distance preservation
    ob=loc[3].term()**2+loc[4].term()**2+loc[5].term()**2==V['L']**2+V['M']**2+V['N']**2
    print('  norm',prove(ob,r['pc'],r['defs'],base,timeout=60))
    break
