import z3
def numden(e, cache=None):
    """Return (num, den) z3 polynomial terms (no division) for real-valued term e."""
    if cache is None: cache={}
    k=e.get_id()
    if k in cache: return cache[k]
    one=z3.RealVal(1)
    if z3.is_rational_value(e) or z3.is_int_value(e) or z3.is_const(e):
        r=(e,one)
    else:
        kind=e.decl().kind(); ch=[numden(c,cache) for c in e.children()]
        if kind==z3.Z3_OP_ADD:
            n,d=ch[0]
            for (n2,d2) in ch[1:]:
                if d.eq(d2): n=n+n2
                elif z3.is_rational_value(d) and z3.is_rational_value(d2): n,d=n*d2+n2*d,d*d2
                else: n,d=n*d2+n2*d,d*d2
            r=(n,d)
        elif kind==z3.Z3_OP_SUB:
            n,d=ch[0]
            for (n2,d2) in ch[1:]:
                if d.eq(d2): n=n-n2
                else: n,d=n*d2-n2*d,d*d2
            r=(n,d)
        elif kind==z3.Z3_OP_UMINUS:
            r=(-ch[0][0],ch[0][1])
        elif kind==z3.Z3_OP_MUL:
            n,d=ch[0]
            for (n2,d2) in ch[1:]: n,d=n*n2,d*d2
            r=(n,d)
        elif kind==z3.Z3_OP_DIV:
            (n1,d1),(n2,d2)=ch
            r=(n1*d2,d1*n2)
        elif kind==z3.Z3_OP_POWER:
            (n1,d1)=ch[0]; ex=e.children()[1]
            p=int(ex.as_long()) if z3.is_int_value(ex) else int(ex.as_fraction())
            n=one; d=one
            for _ in range(abs(p)): n=n*n1; d=d*d1
            r=(n,d) if p>=0 else (d,n)
        elif kind==z3.Z3_OP_TO_REAL:
            r=ch[0]
        else:
            raise NotImplementedError(e.decl())
    r=(z3.simplify(r[0]),z3.simplify(r[1]))
    cache[k]=r
    return r
def eq_poly(lhs,rhs):
    c={}
    n1,d1=numden(lhs,c); n2,d2=numden(rhs,c)
    return n1*d2==n2*d1, [d1!=0,d2!=0]
