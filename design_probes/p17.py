import sys; sys.path.insert(0,'/repo')
import warnings; warnings.filterwarnings('ignore')
import sym1
from sym1 import *
from ratnf import *
import numpy as np, z3, time
from optiland.geometries.standard import StandardGeometry
from optiland.geometries.plane import Plane
from optiland.coordinate_system import CoordinateSystem
from optiland.rays.real_rays import RealRays
from optiland.surfaces.standard_surface import Surface
from optiland.surfaces.image_surface import ImageSurface
from optiland.materials.ideal import IdealMaterial
sym1.install()
L,M,N,R,e=z3.Reals('L M N R e')
# concave ellipsoid mirror, vertex at z=0, R<0 (centre at -|R|): light travels +z from F_far at z=R/(1-e)?? choose foci on the -z side:
# conic x^2+y^2+(1-e^2) z^2 - 2 R z = 0, foci at z = R/(1+e) and R/(1-e) (both negative for R<0, 0<e<1)
base=[L*L+M*M+N*N==1, N>0, R<0, e>0, e<1]
MODE=sys.argv[1] if len(sys.argv)>1 else '3d'
if MODE=='2d': base.append(L==0)
def harness():
    zf1=SV(t=R/(1-e)); zf2=SV(t=R/(1+e))
    rays=RealRays(0.,0.,0.,0.,0.,1.,1.,0.55)
    rays.x=carr(0.0); rays.y=carr(0.0); rays.z=np.array([zf1],dtype=object)
    rays.L=sarr('L'); rays.M=sarr('M'); rays.N=sarr('N'); rays.opd=carr(0.0); rays.i=carr(1.0); rays.w=carr(0.55)
    air=IdealMaterial(SV(1.0),SV(0.0))
    m=Surface(StandardGeometry(CoordinateSystem(),SV(t=R),SV(t=-e*e)),air,air,is_reflective=True)
    img=ImageSurface(Plane(CoordinateSystem(z=zf2)),air)
    m._trace_real(rays); img._trace_real(rays)
    return m,img
t0=time.time()
res=explore(harness, base, maxpaths=100)
print(len(res),'paths',round(time.time()-t0,1))
for r in res:
    if r['out'] is None: print(r['status']); continue
    m,img=r['out']
    v=[img.x[0],img.y[0],img.opd[0]]
    print(r['trace'],[ 'S' if q.sym else q.c for q in v])
    if not v[0].sym: continue
    # OPL = 2a = sum of focal distances: |zf1|+|zf2| ... major axis length 2a = -2R/(1-e^2)
    obs={'x0':img.x[0].term()==0,'y0':img.y[0].term()==0,'opl':img.opd[0].term()==-2*R/(1-e*e)}
    for nm,ob in obs.items():
        l,rr=ob.children()
        q,_=eq_poly(l,rr)
        print('  ',nm,prove(q,r['pc'],r['defs'],base,timeout=120)); sys.stdout.flush()
r=[r for r in res if r['out'] and r['out'][1].x[0].sym][-1]
m,img=r['out']
l,rr=(img.y[0].term()==0).children(); q,_=eq_poly(l,rr)
s=z3.Solver(); s.set('timeout',120000); s.add(base+r['pc']+r['defs']+[z3.Not(q)]); print(s.check()); mo=s.model()
vals={str(d):mo[d] for d in mo.decls() if str(d) in 'LMNRe'}
print(vals)
print('img y',mo.eval(img.y[0].term()),'mirror hit z',mo.eval(m.z[0].term()),'y',mo.eval(m.y[0].term()), 'dir after', mo.eval(m.M[0].term()), mo.eval(m.N[0].term()))
for p in r['pc']: print('  pc',mo.eval(p), z3.simplify(p) if len(str(p))<200 else '...')
