import sys; sys.path.insert(0,'/repo')
import warnings; warnings.filterwarnings('ignore')
import matplotlib; matplotlib.use('Agg')
import sym1, sym2
from sym1 import *
from ratnf import *
import numpy as np, z3, time
from optiland.optic import Optic
from optiland.materials.ideal import IdealMaterial
sym2.install()
K=2
Rs=[z3.Real(f'R{i}') for i in range(K)]; ts=[z3.Real(f't{i}') for i in range(K)]; n1=z3.Real('n1')
epd,tf=z3.Reals('epd fy')
base=[r!=0 for r in Rs]+[n1>1,epd>0,tf>0,tf<40]
def harness():
    o=Optic()
    o.add_surface(index=0, thickness=np.inf)
    o.add_surface(index=1, radius=SV(t=Rs[0]), thickness=SV(t=ts[0]), material=IdealMaterial(SV(t=n1),SV(0.0)), is_stop=True)
    o.add_surface(index=2, radius=SV(t=Rs[1]), thickness=SV(t=ts[1]))
    o.add_surface(index=3)
    o.set_aperture('EPD', SV(t=epd)); o.set_field_type('angle'); o.add_field(y=0); o.add_field(y=SV(t=tf)); o.add_wavelength(0.55,is_primary=True)
    S=o.aberrations.seidels()
    ya,ua=o.paraxial.marginal_ray(); yb,ub=o.paraxial.chief_ray()
    return o,S,ya,ua,yb,ub
t0=time.time()
try: res=explore(harness, base, maxpaths=60)
except Exception:
    import traceback; traceback.print_exc(); sys.exit()
print(len(res),'paths',round(time.time()-t0,1))
import collections; print(collections.Counter(r['status'] for r in res))
def T(v): return SV.of(v).term()
done=0
for r in res:
    if not r['out']: continue
    o,S,ya,ua,yb,ub=r['out']
    if not all(SV.of(x).sym for x in S): print(r['trace'],'nonfinite S',S); continue
    n=[z3.RealVal(1),z3.RealVal(1),n1,z3.RealVal(1)]  # n[k]=index after surface k: obj,1->n1? careful: optic.n(): [obj, s1, s2, img]
    n=[z3.RealVal(1),n1,z3.RealVal(1),z3.RealVal(1)]
    C=[None,1/Rs[0],1/Rs[1]]
    W=[0,0,0,0,0]
    for k in (1,2):
        n0,nn=n[k-1],n[k]; y=T(ya[k,0]); ybk=T(yb[k,0]); u0=T(ua[k-1,0]); u1=T(ua[k,0]); ub0=T(ub[k-1,0]); c=C[k]
        A=n0*(y*c+u0); Ab=n0*(ybk*c+ub0); H=n0*(ub0*y-u0*ybk)
        dun=u1/nn-u0/n0; d1n=1/nn-1/n0
        W[0]+= -A*A*y*dun; W[1]+= -A*Ab*y*dun; W[2]+= -Ab*Ab*y*dun; W[3]+= -H*H*c*d1n
    print(r['trace'])
    for i in range(4):
        q,_=eq_poly(T(S[i]), -W[i])
        print('   S%d'%(i+1), prove(q,r['pc'],r['defs'],base,timeout=60)); sys.stdout.flush()
    done+=1
    if done>=2: break
