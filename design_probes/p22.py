import sys; sys.path.insert(0,'/repo')
import warnings; warnings.filterwarnings('ignore')
import sym1, sym2
from sym1 import *
from ratnf import *
import numpy as np, z3, time
from optiland.geometries.even_asphere import EvenAsphere
from optiland.coordinate_system import CoordinateSystem
from optiland.rays.real_rays import RealRays
sym2.install()
x,y,z,L,M,N,R,k,c1=z3.Reals('x y z L M N R k c1')
base=[L*L+M*M+N*N==1,N>0,R!=0]
MAXIT=int(sys.argv[1]) if len(sys.argv)>1 else 2
def harness():
    rays=RealRays(0.,0.,0.,0.,0.,1.,1.,0.55)
    for n in 'xyzLMN': setattr(rays,n,np.array([SV(t=z3.Real(n))],dtype=object).view(sym2.SArr))
    g=EvenAsphere(CoordinateSystem(),SV(t=R),SV(t=k),1e-10,MAXIT,[SV(t=c1)])
    t=g.distance(rays)
    return t
t0=time.time()
try: res=explore(harness, base, maxpaths=300)
except Exception:
    import traceback; traceback.print_exc(); sys.exit()
print(len(res),'paths',round(time.time()-t0,1))
import collections
print(collections.Counter((r['status'], 'S' if (r['out'] is not None and SV.of(r['out'][0]).sym) else str(r['out'][0]) if r['out'] is not None else None) for r in res))
print(max(len(r['trace']) for r in res))
