import sys; sys.path.insert(0,'/repo')
import warnings; warnings.filterwarnings('ignore')
import matplotlib; matplotlib.use('Agg')
import builtins, tempfile, os
import sym1, sym2
from sym1 import *
import numpy as np, z3, time
import optiland.fileio.zemax_handler as zh
from optiland.fileio import load_zemax_file
sym2.install()
TOK={}
def tok(name): TOK[f'@{name}']=SV(t=z3.Real(name)); return f'@{name}'
_sf=sym2.sym_float
def zfloat(x):
    if isinstance(x,str) and x in TOK:
        v=TOK[x]; return v
    r=_sf(x)
    return r if isinstance(r,SV) else SV(r)
zh.float=zfloat
txt=f"""VERS 140124 258 36214
MODE SEQ
NAME probe
UNIT MM X W X CM MR CPMM
ENPD {tok('epd')}
FTYP 0 0 2 2 0 0 0
XFLN 0 0
YFLN 0 {tok('fy')}
WAVM 1 {tok('w1')} 1
WAVM 2 {tok('w2')} 1
PWAV 2
SURF 0
  TYPE STANDARD
  CURV 0.0
  DISZ INFINITY
SURF 1
  STOP
  TYPE STANDARD
  CURV {tok('c1')}
  DISZ {tok('t1')}
  GLAS QQXYZ 1 0 {tok('nd')} {tok('vd')} 0 0 0 0 0 0
  CONI {tok('k1')}
SURF 2
  TYPE STANDARD
  CURV {tok('c2')}
  DISZ {tok('t2')}
SURF 3
  TYPE STANDARD
  CURV 0.0
  DISZ 0
"""
fn=tempfile.mktemp(suffix='.zmx'); open(fn,'w',encoding='utf-8').write(txt)
def harness():
    o=load_zemax_file(fn)
    return o
t0=time.time()
try: res=explore(harness, [], maxpaths=50)
except Exception: 
    import traceback; traceback.print_exc(); sys.exit()
print(len(res),'paths',round(time.time()-t0,1))
for r in res[:6]:
    print(r['trace'],r['status'])
    o=r['out']
    if o:
        print(' radii',list(o.surface_group.radii)); print(' pos',[p[0] for p in o.surface_group.positions]); print(' conic',list(o.surface_group.conic))
        print(' ap',o.aperture.ap_type,o.aperture.value,'fields',o.fields.y_fields,'wl',o.wavelengths.get_wavelengths(),o.wavelengths.primary_index, 'stop',o.surface_group.stop_index)
        print(' mat',[type(s.material_post).__name__ for s in o.surface_group.surfaces], o.surface_group.surfaces[1].material_post.n(0.5875618))
os.unlink(fn)
