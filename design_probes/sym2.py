"""prototype v2: all-object mode numpy proxy + builtin shims, to run Optic-level code symbolically"""
import builtins, sys, math, types
import numpy as np, z3
import sym1
from sym1 import SV, SymBool
_isinstance=builtins.isinstance

class SArr(np.ndarray):
    def astype(self,dtype,*a,**k):
        if dtype is sym_float or dtype is builtins.float or dtype is np.float64: return self.copy()
        return np.ndarray.astype(self,dtype,*a,**k)
def to_obj(a):
    r=_to_obj(a)
    if _isinstance(r,np.ndarray) and r.dtype==object and not _isinstance(r,SArr): r=r.view(SArr)
    return r
def _to_obj(a):
    """convert any ndarray / scalar result to object array of SV (all-object mode)."""
    if isinstance(a,np.ndarray):
        if a.dtype==object:
            return a
        if a.dtype==bool: return a
        if np.issubdtype(a.dtype,np.integer): return a
        if np.issubdtype(a.dtype,np.number):
            out=np.empty(a.shape,dtype=object)
            for idx in np.ndindex(a.shape): out[idx]=SV(float(a[idx]))
            return out
        return a
    if isinstance(a,(np.floating,)): return SV(float(a))
    if isinstance(a,tuple): return tuple(to_obj(x) for x in a)
    if isinstance(a,list): return [to_obj(x) for x in a]
    return a
def has_sv(x):
    if isinstance(x,SV): return True
    if isinstance(x,np.ndarray): return x.dtype==object
    if isinstance(x,(list,tuple)): return any(has_sv(y) for y in x)
    return False
def _ew1(name,pyf):
    def f(self,a,*args,**kw):
        if isinstance(a,SV): return getattr(a,name)()
        if isinstance(a,np.ndarray) and a.dtype==object:
            return np.frompyfunc(lambda v:getattr(SV.of(v),name)(),1,1)(a)
        if isinstance(a,(list,tuple)) and has_sv(a): return f(self,self.array(a))
        return to_obj(getattr(np,name)(a,*args,**kw))
    return f
class NP:
    ndarray=np.ndarray; inf=np.inf; nan=np.nan; pi=np.pi; newaxis=None; float64=np.float64
    def __getattr__(self,name):
        real=getattr(np,name)
        if callable(real) and not isinstance(real,type):
            def w(*a,**k):
                if k.get('dtype') is sym_float: k['dtype']=float
                return to_obj(real(*a,**k))
            return w
        return real
    def array(self,obj,dtype=None,**k):
        if dtype is sym_float: dtype=float
        if dtype in (float,None,np.float64):
            a=np.array(obj,dtype=object,**k) if has_sv(obj) else np.array(obj,dtype=dtype,**k)
            # nested arrays of object: np.array handles
            return to_obj(a)
        return np.array(obj,dtype=dtype,**k)
    def zeros(self,shape,dtype=float):
        if dtype is sym_float: dtype=float
        return to_obj(np.zeros(shape)) if dtype in(float,) else np.zeros(shape,dtype=dtype)
    def ones(self,shape,dtype=float): return to_obj(np.ones(shape))
    def empty(self,shape,dtype=float): return to_obj(np.zeros(shape))
    def interp(self,x,xp,fp,left=None,right=None):
        xp=[SV.of(v) for v in np.ravel(np.asarray(xp,dtype=object))]; fp=[SV.of(v) for v in np.ravel(np.asarray(fp,dtype=object))]
        def one(v):
            v=SV.of(v)
            if v<=xp[0]: return fp[0] if left is None or v==xp[0] else SV.of(left)
            if v>=xp[-1]: return fp[-1]
            for i in range(len(xp)-1):
                if v<xp[i+1]:
                    return fp[i]+(fp[i+1]-fp[i])*(v-xp[i])/(xp[i+1]-xp[i])
            return fp[-1]
        if _isinstance(x,SV) or np.isscalar(x): return one(x)
        xa=np.asarray(x,dtype=object)
        return to_obj(np.frompyfunc(one,1,1)(xa))
    def isscalar(self,x): return isinstance(x,SV) or np.isscalar(x)
    def isinf(self,a):
        if isinstance(a,SV): return (not a.sym) and math.isinf(a.c)
        a=np.asarray(a)
        if a.dtype!=object: return np.isinf(a)
        return np.frompyfunc(lambda v:(not SV.of(v).sym) and math.isinf(SV.of(v).c),1,1)(a).astype(bool)
    def isnan(self,a):
        if isinstance(a,SV): return (not a.sym) and math.isnan(a.c)
        a=np.asarray(a)
        if a.dtype!=object: return np.isnan(a)
        r=np.frompyfunc(lambda v:(not SV.of(v).sym) and math.isnan(SV.of(v).c),1,1)(a)
        return bool(r) if not _isinstance(r,np.ndarray) else r.astype(bool)
    sign=sym1.NPProxy.sign
    radians=_ew1('radians',None); deg2rad=_ew1('deg2rad',None); tan=_ew1('tan',None)
    sqrt=_ew1('sqrt',None); sin=_ew1('sin',None); cos=_ew1('cos',None); exp=_ew1('exp',None)
    def abs(self,a):
        if isinstance(a,SV): return abs(a)
        return np.abs(to_obj(np.asarray(a))) if not (isinstance(a,np.ndarray) and a.dtype==object) else np.abs(a)
class _LA:
    def norm(self,a,axis=None):
        a=np.asarray(a,dtype=object)
        sq=a*a
        tot=sq.sum(axis=axis)
        if _isinstance(tot,np.ndarray): return to_obj(np.frompyfunc(lambda v:SV.of(v).sqrt(),1,1)(tot))
        return SV.of(tot).sqrt()
NP.linalg=_LA()
def _max(self,a,*args,**k):
    a=np.asarray(a)
    if a.dtype!=object: return np.max(a,*args,**k)
    flat=list(a.reshape(-1)); m=flat[0]
    for v in flat[1:]:
        if v>m: m=v
    return m
NP.max=_max
NPX=NP()
import os
LENIENT=bool(os.environ.get('LENIENT'))
def sym_float(x):
    if isinstance(x,SV): return x
    if isinstance(x,np.ndarray):
        if x.ndim>0 and not LENIENT:
            # mimic installed numpy
            try: float(np.zeros(x.shape))
            except TypeError as e: raise TypeError(str(e))
        return SV.of(x.reshape(-1)[0])
    return builtins.float(x)
_isinstance=builtins.isinstance
def sym_isinstance(o,t):
    ts=t if _isinstance(t,tuple) else (t,)
    ts=tuple(builtins.float if x is sym_float else x for x in ts)
    if _isinstance(o,SV) and builtins.float in ts: return True
    return _isinstance(o,ts)
def install():
    for n,m in list(sys.modules.items()):
        if n.startswith('optiland') and m is not None:
            if getattr(m,'np',None) is np or _isinstance(getattr(m,'np',None),sym1.NPProxy): m.np=NPX
            m.float=sym_float; m.isinstance=sym_isinstance
