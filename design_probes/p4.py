import sys; sys.path.insert(0,'/repo')
import warnings; warnings.filterwarnings('ignore')
import sym0
from sym0 import *
import numpy as np, z3, time
from optiland.geometries.standard import StandardGeometry
from optiland.coordinate_system import CoordinateSystem
from optiland.rays.real_rays import RealRays
X=dict((n,z3.Real(n)) for n in 'x y z L M N R k'.split())
base=[X['L']**2+X['M']**2+X['N']**2==1, X['R']!=0]
def harness():
    sym0.E.base=base
    x,y,z,L,M,N=[arr(n) for n in 'x y z L M N'.split()]
    Rr=Sym(X['R']); k=Sym(X['k'])
    rays=RealRays.__new__(RealRays)
    rays.x,rays.y,rays.z,rays.L,rays.M,rays.N=x,y,z,L,M,N
    g=StandardGeometry(CoordinateSystem(),Rr,k)
    t=g.distance(rays)
    if not isinstance(t[0],Sym): return ('nonfinite',t[0])
    t=t[0].t
    px,py,pz=X['x']+t*X['L'],X['y']+t*X['M'],X['z']+t*X['N']
    F=px*px+py*py+(1+X['k'])*pz*pz-2*X['R']*pz
    return ('sym',F==0, t>=0)
res=explore(harness)
print(len(res),'paths')
tot=0
for tr,pc,defs,out,st in res:
    if out is None or out[0]!='sym': print(tr,st,out); continue
    for nm,ob in (('onsurf',out[1]),('tpos',out[2])):
        r=solve(base+pc+defs+[z3.Not(ob)],timeout=60)
        tot+=r[2]
        print(tr,nm,r)
print('total',tot)
