import sys; sys.path.insert(0,'/repo')
import warnings; warnings.filterwarnings('ignore')
import sym1
from sym1 import *
from ratnf import *
import numpy as np, z3, time, collections
from optiland.geometries.standard import StandardGeometry
from optiland.geometries.plane import Plane
from optiland.coordinate_system import CoordinateSystem
from optiland.rays.real_rays import RealRays
from optiland.surfaces.standard_surface import Surface
from optiland.surfaces.image_surface import ImageSurface
from optiland.materials.ideal import IdealMaterial
sym1.install()
hx,hy,R=z3.Reals('hx hy R')
base=[R<0, hx*hx+hy*hy<=R*R]   # concave mirror toward +z light: R<0
def harness():
    rays=RealRays(0.,0.,-10.,0.,0.,1.,1.,0.55)
    rays.x=sarr('hx'); rays.y=sarr('hy'); rays.z=carr(-10.0)
    rays.L=carr(0.0); rays.M=carr(0.0); rays.N=carr(1.0); rays.opd=carr(0.0); rays.i=carr(1.0); rays.w=carr(0.55)
    air=IdealMaterial(SV(1.0),SV(0.0))
    m=Surface(StandardGeometry(CoordinateSystem(),SV(t=R),SV(-1.0)),air,air,is_reflective=True)
    img=ImageSurface(Plane(CoordinateSystem(z=SV(t=R/2))),air)
    m._trace_real(rays); img._trace_real(rays)
    return m,img
t0=time.time()
res=explore(harness, base)
print(len(res),'paths',time.time()-t0)
for r in res:
    if r['out'] is None: print(r['status']); continue
    m,img=r['out']
    v=[img.x[0],img.y[0],img.opd[0]]
    print(r['trace'],[ 'S' if q.sym else q.c for q in v])
    if not v[0].sym: continue
    obs={'x0':img.x[0].term()==0,'y0':img.y[0].term()==0,'opl':img.opd[0].term()==10-R/2}
    for nm,ob in obs.items():
        print('  ',nm,prove(ob,r['pc'],r['defs'],base,timeout=60)); sys.stdout.flush()
r=res[3]; m,img=r['out']
s=z3.Solver(); s.add(base+r['pc']+r['defs']+[img.opd[0].term()!=10-R/2]); print(s.check()); mo=s.model(); print(mo)
print('opd',mo.eval(img.opd[0].term()), 'expected',mo.eval(10-R/2), 'zmirror', mo.eval(m.z[0].term()))
for p in r['pc']: print(z3.simplify(p))
