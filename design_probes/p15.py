import sys; sys.path.insert(0,'/repo')
import warnings; warnings.filterwarnings('ignore')
import matplotlib; matplotlib.use('Agg')
import sym1, sym2
from sym1 import *
from ratnf import *
import numpy as np, z3, time
from optiland.optic import Optic
from optiland.materials.ideal import IdealMaterial
sym2.install()
K=int(sys.argv[1]); STOP=int(sys.argv[2])
Rs=[z3.Real(f'R{i}') for i in range(K)]; ts=[z3.Real(f't{i}') for i in range(K)]; ns=[z3.Real(f'n{i}') for i in range(K)]
epd,fld=z3.Reals('epd tanfld')
base=[r!=0 for r in Rs]+[n>=1 for n in ns]+[epd>0]
def harness():
    o=Optic()
    o.add_surface(index=0, thickness=np.inf)
    for i in range(K):
        o.add_surface(index=i+1, radius=SV(t=Rs[i]), thickness=SV(t=ts[i]), material=IdealMaterial(SV(t=ns[i]),SV(0.0)) if i%2==0 else 'air', is_stop=(i+1==STOP))
    o.add_surface(index=K+1)
    o.set_aperture('EPD', SV(t=epd)); o.set_field_type('angle'); o.add_field(y=0); o.add_field(y=5.0); o.add_wavelength(0.55,is_primary=True)
    p=o.paraxial
    return dict(f2=p.f2(),F2=p.F2(),EPL=p.EPL(),XPL=p.XPL(),ma=p.marginal_ray(),f1=p.f1())
t0=time.time()
try:
    res=explore(harness, base, maxpaths=300)
except Exception as e:
    import traceback; traceback.print_exc(); sys.exit()
print(len(res),'paths',round(time.time()-t0,1))
import collections; print(collections.Counter(r['status'] for r in res))
r=[r for r in res if r['out']][-1]
print({k:(v.sym if isinstance(v,SV) else type(v).__name__) for k,v in r['out'].items()})
# oracle EPL for stop at STOP: image of stop through preceding surfaces, reversed ABCD
