import z3,sys
sys.path.insert(0,'.')
from sym1 import solve
from ratnf import eq_poly
c,s,n,root=z3.Reals('c s n root')
base=[c*c+s*s==1,c>0,n>0,root>0,root*root==n*n-s*s]
rs=(c-root)/(c+root); rp=(n*n*c-root)/(n*n*c+root)
ts=2*c/(c+root); tp=2*n*c/(n*n*c+root)
# T = (n2 cos_t)/(n1 cos_i) |t|^2 ; n cos_t = root  (since n cos_t = sqrt(n^2 - sin^2))
for nm,(l,r) in {'Rs+Ts':(rs*rs+root/c*ts*ts,z3.RealVal(1)),'Rp+Tp':(rp*rp+root/c*tp*tp,z3.RealVal(1))}.items():
    q,dens=eq_poly(l,r)
    print(nm,solve(base+[c+root!=0,n*n*c+root!=0]+[z3.Not(q)],timeout=60))
# Brewster: tan(theta)=n -> s = n c  => rp == 0
q,_=eq_poly(rp,z3.RealVal(0))
print('brewster',solve(base+[s==n*c,z3.Not(q)],timeout=60))
# retarder unitarity: J = [[e^{-id/2}c^2+e^{id/2}s^2, -i sin(d/2) sin 2t],[.., e^{id/2}c^2+e^{-id/2}s^2]]
ch,sh,ct,st,c2t,s2t=z3.Reals('ch sh ct st c2t s2t')
base2=[ch*ch+sh*sh==1,ct*ct+st*st==1,s2t==2*st*ct,c2t==ct*ct-st*st]
j00=(ch*ct*ct+ch*st*st, -sh*ct*ct+sh*st*st)   # (re,im)
j01=(z3.RealVal(0),-sh*s2t)
j11=(ch*ct*ct+ch*st*st, sh*ct*ct-sh*st*st)
def cmul(a,b): return (a[0]*b[0]-a[1]*b[1], a[0]*b[1]+a[1]*b[0])
def conj(a): return (a[0],-a[1])
def cadd(a,b): return (a[0]+b[0],a[1]+b[1])
# J^H J = I
e00=cadd(cmul(conj(j00),j00),cmul(conj(j01),j01))
e01=cadd(cmul(conj(j00),j01),cmul(conj(j01),j11))
ob=z3.And(e00[0]==1,e00[1]==0,e01[0]==0,e01[1]==0)
print('retarder unitary',solve(base2+[z3.Not(ob)],timeout=60))
