"""prototype Jet: truncated power series in eps with SV coefficients (order ORD)"""
import numpy as np, z3, math
import sym1
from sym1 import SV, SymBool
ORD=2
def sv(x): 
    r=SV.of(x); assert r is not None, type(x); return r
class Jet:
    __slots__=('a',)
    def __init__(s,a):
        a=[sv(x) for x in a]; a=a+[SV(0.0)]*(ORD+1-len(a)); s.a=a[:ORD+1]
    @staticmethod
    def of(o):
        if isinstance(o,Jet): return o
        r=SV.of(o)
        return None if r is None else Jet([r])
    def _b(s,o):
        if isinstance(o,np.ndarray): return None
        return Jet.of(o)
    def __add__(s,o):
        o=s._b(o)
        if o is None: return NotImplemented
        return Jet([x+y for x,y in zip(s.a,o.a)])
    __radd__=__add__
    def __neg__(s): return Jet([-x for x in s.a])
    def __pos__(s): return s
    def __sub__(s,o):
        o=s._b(o)
        if o is None: return NotImplemented
        return Jet([x-y for x,y in zip(s.a,o.a)])
    def __rsub__(s,o):
        o=s._b(o)
        if o is None: return NotImplemented
        return o-s
    def __mul__(s,o):
        o=s._b(o)
        if o is None: return NotImplemented
        r=[SV(0.0)]*(ORD+1)
        for i,x in enumerate(s.a):
            for j,y in enumerate(o.a):
                if i+j<=ORD: r[i+j]=r[i+j]+x*y
        return Jet(r)
    __rmul__=__mul__
    def inv(s):
        a0=s.a[0]
        if a0==0: raise sym1.PathEnd('jet-inv-zero-leading')
        b=[SV(1.0)/a0]
        for n in range(1,ORD+1):
            acc=SV(0.0)
            for k in range(1,n+1): acc=acc+s.a[k]*b[n-k]
            b.append(-acc/a0)
        return Jet(b)
    def __truediv__(s,o):
        o=s._b(o)
        if o is None: return NotImplemented
        return s*o.inv()
    def __rtruediv__(s,o):
        o=s._b(o)
        if o is None: return NotImplemented
        return o*s.inv()
    def __pow__(s,e):
        e=sv(e); assert not e.sym
        if e.c==0.5: return s.sqrt()
        n=int(e.c); assert n==e.c
        r=Jet([1.0])
        for _ in range(abs(n)): r=r*s
        return r if n>=0 else r.inv()
    def sqrt(s):
        a0=s.a[0]
        if a0==0: raise sym1.PathEnd('jet-sqrt-zero-leading')
        if a0<0: return Jet([float('nan')]*(ORD+1))
        b=[a0.sqrt()]
        for n in range(1,ORD+1):
            acc=s.a[n]
            for k in range(1,n): acc=acc-b[k]*b[n-k]
            b.append(acc/(2*b[0]))
        return Jet(b)
    def _lex(s,o,op):
        o=s._b(o)
        if o is None: return NotImplemented
        d=s-o
        for c in d.a:
            if c==0: continue
            return bool(op(c,0))
        return bool(op(0,0))
    def __lt__(s,o): return s._lex(o,lambda a,b:a<b)
    def __le__(s,o): return s._lex(o,lambda a,b:a<=b)
    def __gt__(s,o): return s._lex(o,lambda a,b:a>b)
    def __ge__(s,o): return s._lex(o,lambda a,b:a>=b)
    def __eq__(s,o): return s._lex(o,lambda a,b:a==b)
    def __ne__(s,o): return s._lex(o,lambda a,b:a!=b)
    __hash__=None
    def __abs__(s): return s if s>=0 else -s
    def exp(s):
        assert all((not c.sym) and c.c==0 for c in s.a), 'exp of nonzero jet'
        return Jet([1.0])
    def __deepcopy__(s,m): return s
    def __repr__(s): return 'Jet('+', '.join(map(repr,s.a))+')'
def jarr(*jets): 
    out=np.empty(len(jets),dtype=object)
    for i,j in enumerate(jets): out[i]=j
    return out
