import sys; sys.path.insert(0,'/repo')
import warnings; warnings.filterwarnings('ignore')
import matplotlib; matplotlib.use('Agg')
import sym1, sym2
from sym1 import *
from ratnf import *
import numpy as np, z3, time
from optiland.optic import Optic
from optiland.materials.ideal import IdealMaterial
sym2.install()
R1,t1,n1,epd,fy,Hy,Px,Py=z3.Reals('R1 t1 n1 epd fy Hy Px Py')
base=[R1!=0,n1>=1,epd>0,fy>0,fy<80,Hy>=-1,Hy<=1,Px*Px+Py*Py<=1]
def harness():
    o=Optic()
    o.add_surface(index=0, thickness=np.inf)
    o.add_surface(index=1, radius=SV(t=R1), thickness=SV(t=t1), material=IdealMaterial(SV(t=n1),SV(0.0)), is_stop=True)
    o.add_surface(index=2)
    o.set_aperture('EPD', SV(t=epd)); o.set_field_type('angle'); o.add_field(y=0); o.add_field(y=SV(t=fy)); o.add_wavelength(0.55,is_primary=True)
    hx=sym2.to_obj(np.array([0.0])); hy=np.array([SV(t=Hy)],dtype=object).view(sym2.SArr)
    px=np.array([SV(t=Px)],dtype=object).view(sym2.SArr); py=np.array([SV(t=Py)],dtype=object).view(sym2.SArr)
    rays=o.ray_generator.generate_rays(hx,hy,px,py,0.55)
    return rays,o.paraxial.EPL(),o.paraxial.EPD()
t0=time.time()
try: res=explore(harness, base, maxpaths=100)
except Exception:
    import traceback; traceback.print_exc(); sys.exit()
print(len(res),'paths',round(time.time()-t0,1))
for r in res:
    print(r['trace'],r['status'])
    if not r['out']: continue
    rays,EPL,EPDv=r['out']
    if not all(getattr(rays,a)[0].finite() for a in 'xyzLMN'): print('  nonfinite'); continue
    print('  EPL',EPL,'EPD',EPDv,'x0',rays.x[0],'y0',rays.y[0],'z0',rays.z[0])
    x,y,z,L,M,N=[getattr(rays,a)[0].term() for a in 'xyzLMN']
    ax,ay,az=Px*epd/2,Py*epd/2,SV.of(EPL).term()
    obs={'unit':L*L+M*M+N*N==1,'aim_x':(ay-y)*N==(az-z)*M,'aim_y':(ax-x)*N==(az-z)*L}
    for nm,ob in obs.items():
        l,rr=ob.children(); q,_=eq_poly(l,rr)
        print('   ',nm,prove(q,r['pc'],r['defs'],base,timeout=60)); sys.stdout.flush()
    # chief direction angle: for Px=Py=0 tangent M/N = tan(Hy*fy)?  direction of all rays equal: M/N == tan(theta)
    print('    memo keys',[k[0] for k in r['memo'].keys()])
