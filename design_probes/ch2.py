import sys
sys.path.insert(0,'/repo')
from optiland.materials.material import Material

def _lev_zero_iff_equal(a: str, b: str) -> bool:
    """
    pre: len(a) <= 3 and len(b) <= 3
    post: _ == True
    """
    d = Material._levenshtein_distance(a, b)
    return (d == 0) == (a == b) and d >= abs(len(a)-len(b)) and d <= max(len(a),len(b))
