import sys; sys.path.insert(0,'/repo')
import warnings; warnings.filterwarnings('ignore')
import matplotlib; matplotlib.use('Agg')
import sym1, sym2, types
from sym1 import *
from ratnf import *
import numpy as np, z3, time
from optiland.optic import Optic
from optiland.materials.ideal import IdealMaterial
from optiland.optimization import OptimizationProblem, OptimizerGeneric
from optiland.optimization.operand.operand import operand_registry
import optiland.optimization.optimization as om
sym2.install()
R1,t1,n1,p1,p2,tgt=z3.Reals('R1 t1 n1 p1 p2 tgt')
opf=z3.Function('opf',z3.RealSort(),z3.RealSort(),z3.RealSort())
def uf_operand(optic):
    r=SV.of(optic.surface_group.radii[1]); t=SV.of(optic.surface_group.get_thickness(1)[0])
    return SV(t=opf(r.term(),t.term()))
operand_registry.register('uf',uf_operand,overwrite=True)
class Res: pass
class StubOpt:
    @staticmethod
    def minimize(fun,x0,method=None,bounds=None,options=None,tol=None):
        pts=[list(x0),[SV(t=p1)],[SV(t=p2)]]
        vals=[fun(p) for p in pts]
        best=0
        for i in (1,2):
            if vals[i]<vals[best]: best=i
        r=Res(); r.x=pts[best]; r.fun=vals[best]; r.evaluated=pts
        return r
om.optimize=StubOpt
base=[R1!=0,n1>=1]
def harness():
    o=Optic()
    o.add_surface(index=0, thickness=np.inf)
    o.add_surface(index=1, radius=SV(t=R1), thickness=SV(t=t1), material=IdealMaterial(SV(t=n1),SV(0.0)), is_stop=True)
    o.add_surface(index=2)
    o.set_aperture('EPD', 10.0); o.set_field_type('angle'); o.add_field(y=0); o.add_wavelength(0.55,is_primary=True)
    prob=OptimizationProblem()
    prob.add_operand('uf',target=SV(t=tgt),weight=1,input_data={'optic':o})
    prob.add_variable(o,'radius',surface_number=1)
    f0=prob.sum_squared()
    opt=OptimizerGeneric(prob)
    res=opt.optimize()
    return o,prob,res,f0
t0=time.time()
try: res=explore(harness, base, maxpaths=100)
except Exception:
    import traceback; traceback.print_exc(); sys.exit()
print(len(res),'paths',round(time.time()-t0,1))
for r in res:
    if not r['out']: print(r['status']); continue
    o,prob,rs,f0=r['out']
    SVo=lambda q: SV.of(q) if SV.of(q) is not None else SV.of(np.asarray(q,dtype=object).reshape(-1)[0])
    v=SVo(prob.variables[0].value); x=SVo(rs.x[0])
    obs={'state_is_result':v.term()==x.term(),'merit_matches':SVo(prob.sum_squared()).term()==SVo(rs.fun).term(),'not_worse':SVo(rs.fun).term()<=SVo(f0).term()}
    print(r['trace'])
    for nm,ob in obs.items():
        print('   ',nm,prove(ob,r['pc'],r['defs'],base,timeout=30))
