import sys; sys.path.insert(0,'/repo')
import warnings; warnings.filterwarnings('ignore')
import matplotlib; matplotlib.use('Agg')
import sym1, sym2
from sym1 import *
from ratnf import *
import numpy as np, z3, time
from optiland.optic import Optic
from optiland.materials.ideal import IdealMaterial
sym2.install()
K=int(sys.argv[1]) if len(sys.argv)>1 else 2
Rs=[z3.Real(f'R{i}') for i in range(K)]; ts=[z3.Real(f't{i}') for i in range(K)]; ns=[z3.Real(f'n{i}') for i in range(K)]
epd=z3.Real('epd')
base=[r!=0 for r in Rs]+[n>=1 for n in ns]+[epd>0]
def harness():
    o=Optic()
    o.add_surface(index=0, thickness=np.inf)
    for i in range(K):
        o.add_surface(index=i+1, radius=SV(t=Rs[i]), thickness=SV(t=ts[i]), material=IdealMaterial(SV(t=ns[i]),SV(0.0)), is_stop=(i==0))
    o.add_surface(index=K+1)
    o.set_aperture('EPD', SV(t=epd)); o.set_field_type('angle'); o.add_field(y=0); o.add_wavelength(0.55,is_primary=True)
    return o, o.surface_group.positions, o.paraxial.f2(), o.paraxial.marginal_ray()
t0=time.time()
try:
    res=explore(harness, base)
except Exception as e:
    import traceback; traceback.print_exc(); sys.exit()
print(len(res),'paths',time.time()-t0)
for r in res[:3]:
    print(r['trace'],r['status'])
    if r['out']:
        o,pos,f2,(ya,ua)=r['out']
        print(pos.shape,[p[0] for p in pos][:4]); print('f2',f2); print(ya.shape)
