import z3,sys,time
sys.path.insert(0,'.')
from sym1 import solve
for n in (2,3):
    a=[z3.Real(f'a{i}') for i in range(n)]; c=[z3.Real(f'c{i}') for i in range(n)]; s=[z3.Real(f's{i}') for i in range(n)]
    base=[x>=0 for x in a]+[c[i]*c[i]+s[i]*s[i]==1 for i in range(n)]
    re=sum(a[i]*c[i] for i in range(n)); im=sum(a[i]*s[i] for i in range(n)); tot=sum(a)
    print(n,'strehl<=1',solve(base+[re*re+im*im>tot*tot],timeout=120)); sys.stdout.flush()
# n=4 equal amplitudes (uniform illumination)
n=4
c=[z3.Real(f'c{i}') for i in range(n)]; s=[z3.Real(f's{i}') for i in range(n)]
base=[c[i]*c[i]+s[i]*s[i]==1 for i in range(n)]
re=sum(c); im=sum(s)
print('n=4 uniform',solve(base+[re*re+im*im>16],timeout=120))
