import sys; sys.path.insert(0,'/repo')
import warnings; warnings.filterwarnings('ignore')
import sym1
from sym1 import *
from ratnf import *
import numpy as np, z3, time
from optiland.geometries.standard import StandardGeometry
from optiland.coordinate_system import CoordinateSystem
from optiland.rays.real_rays import RealRays
from optiland.surfaces.standard_surface import Surface
from optiland.materials.ideal import IdealMaterial
sym1.install()
y,z,M,N,R,n1,n2,c,s=z3.Reals('y z M N R n1 n2 c s')
base=[M*M+N*N==1,N>0,R!=0,n1>=1,n2>=1,c*c+s*s==1,c>z3.RealVal('0.95')]
def mk():
    rays=RealRays(0.,0.,0.,0.,0.,1.,1.,0.55)
    rays.x=carr(0.0); rays.y=sarr('y'); rays.z=sarr('z'); rays.L=carr(0.0); rays.M=sarr('M'); rays.N=sarr('N')
    rays.opd=carr(0.0); rays.i=carr(1.0); rays.w=carr(0.55)
    return rays
class Ang:  # fake angle object with given cos/sin, supports unary minus and truthiness
    def __init__(s,c,sn): s.c=c; s.sn=sn
    def __neg__(s): return Ang(s.c,-s.sn)
    def __bool__(s): return True
    def cos(s): return s.c
    def sin(s): return s.sn
def harness():
    mat1=IdealMaterial(SV(t=n1),SV(0.0)); mat2=IdealMaterial(SV(t=n2),SV(0.0))
    s0=Surface(StandardGeometry(CoordinateSystem(),SV(t=R),SV(0.0)),mat1,mat2)
    r0=mk(); s0._trace_real(r0)
    # tilt rx=theta about centre (0,0,R): vertex moves to C - Rx(theta)(0,0,R); rotate_x: y'=y c - z s ; z' = y s + z c  => (0,0,R) -> (-R s, R c)
    C=SV(t=c); S=SV(t=s); Rr=SV(t=R)
    cs=CoordinateSystem(x=0,y=Rr*S,z=Rr-Rr*C,rx=Ang(C,S))
    s1=Surface(StandardGeometry(cs,SV(t=R),SV(0.0)),mat1,mat2)
    r1=mk(); s1._trace_real(r1)
    return s0,s1
import optiland.rays.real_rays as rr
class NPA(sym1.NPProxy):
    def cos(self,a): return a.cos() if isinstance(a,Ang) else np.cos(a)
    def sin(self,a): return a.sin() if isinstance(a,Ang) else np.sin(a)
rr.np=NPA()
t0=time.time()
res=explore(harness, base, maxpaths=400)
print(len(res),'paths',round(time.time()-t0,1))
import collections
fin=[r for r in res if r['out'] and r['out'][0].y[0].sym and r['out'][1].y[0].sym and r['out'][0].M[0].sym and r['out'][1].M[0].sym]
print(len(fin),'finite-both paths')
for r in fin[:3]:
    s0,s1=r['out']
    print(r['trace'])
    for nm in 'yzMN':
        l=getattr(s0,nm)[0].term(); rr_=getattr(s1,nm)[0].term()
        q,_=eq_poly(l,rr_)
        print('   ',nm,prove(q,r['pc'],r['defs'],base,timeout=120)); sys.stdout.flush()
