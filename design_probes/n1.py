import sys; sys.path.insert(0,'/repo')
import warnings; warnings.filterwarnings('ignore')
import matplotlib; matplotlib.use('Agg')
import builtins, numpy as np
import optiland.surfaces.surface_factory as sf, optiland.optic as oo
lf=lambda x: builtins.float(np.ravel(x)[0]) if isinstance(x,np.ndarray) else builtins.float(x)
sf.float=lf; oo.float=lf
from optiland.optic import Optic
from optiland.materials.ideal import IdealMaterial
def singlet(R1,R2,t,n,stop=1,obj=np.inf,bfl=None):
    o=Optic()
    o.add_surface(index=0,thickness=obj)
    o.add_surface(index=1,radius=R1,thickness=t,material=IdealMaterial(n),is_stop=(stop==1))
    o.add_surface(index=2,radius=R2,thickness=bfl if bfl is not None else 90.0,is_stop=(stop==2))
    o.add_surface(index=3)
    o.set_aperture('EPD',10.0); o.set_field_type('angle'); o.add_field(y=0); o.add_field(y=5.0); o.add_wavelength(0.55,is_primary=True)
    return o
o=singlet(50.,-50.,5.,1.5)
print('f2',o.paraxial.f2(),'F2',o.paraxial.F2(),'EPL',o.paraxial.EPL(),'XPL',o.paraxial.XPL())
o.image_solve()
ya,ua=o.paraxial.marginal_ray(); yb,ub=o.paraxial.chief_ray()
print('ya',ya.ravel(),'ua',ua.ravel()); print('yb',yb.ravel(),'ub',ub.ravel())
S=o.aberrations.seidels(); print('lib seidels',S)
# Welford
n=o.n(); C=1/o.surface_group.radii
W=np.zeros(5)
H=n[1]*(ub[1]*ya[1]-ua[1]*yb[1])
for k in (1,2):
    n0,n1=n[k-1],n[k]; y=ya[k,0]; yb_=yb[k,0]; u0=ua[k-1,0]; u1=ua[k,0]; ub0=ub[k-1,0]; ub1=ub[k,0]; c=C[k]
    A=n0*(y*c+u0); Ab=n0*(yb_*c+ub0); Hh=n0*(ub0*y-u0*yb_)
    d_un=u1/n1-u0/n0; d_1n=1/n1-1/n0
    W+=np.array([-A*A*y*d_un, -A*Ab*y*d_un, -Ab*Ab*y*d_un, -Hh*Hh*c*d_1n, -(Ab/A)*(Hh*Hh*c*d_1n+Ab*Ab*y*d_un)])
print('welford  ',W, 'H',H, 'inv',o.paraxial.invariant())
# negative lens f2
o2=singlet(-50.,50.,5.,1.5); print('neg lens f2',o2.paraxial.f2(),'F2',o2.paraxial.F2())
# marginal ray height solve on interior surface 2
o3=singlet(50.,-50.,5.,1.5)
o3.solves.add('marginal_ray_height',2,4.0); o3.update()
print('solve@2 ya', o3.paraxial.marginal_ray()[0].ravel(), 'requested 4.0')
o4=singlet(50.,-50.,5.,1.5)
o4.solves.add('marginal_ray_height',3,0.0); o4.update()
print('solve@img ya', o4.paraxial.marginal_ray()[0].ravel(), 'requested 0.0')
