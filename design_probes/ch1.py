import sys
sys.path.insert(0,'/repo')
from typing import List, Tuple
from optiland.wavelength import WavelengthGroup

def _one_primary(ops: List[Tuple[float, bool]]) -> int:
    """
    pre: 1 <= len(ops) <= 4
    post: _ == 1
    """
    g = WavelengthGroup()
    for v, p in ops:
        g.add_wavelength(v, p)
    return sum(1 for w in g.wavelengths if w.is_primary)
