import sys; sys.path.insert(0,'/repo')
import warnings; warnings.filterwarnings('ignore')
import matplotlib; matplotlib.use('Agg')
import sym1, sym2, types
from sym1 import *
import numpy as np, z3, time
from optiland.optic import Optic
from optiland.materials.ideal import IdealMaterial
from optiland.analysis import SpotDiagram
from optiland.distribution import BaseDistribution
sym2.install()
RS=z3.RealSort()
UF={q:z3.Function('tr_'+q,RS,RS,RS,RS,RS,RS) for q in 'xyzLMN'}
UF['opd']=z3.Function('tr_opd',RS,RS,RS,RS,RS,RS); UF['i']=z3.Function('tr_i',RS,RS,RS,RS,RS,RS)
CALLS=[]
def T(v): return SV.of(v).term()
def fake_trace(self,Hx,Hy,wavelength,num_rays=100,distribution='hexapolar'):
    px=distribution.x if not isinstance(distribution,str) else None
    py=distribution.y
    n=len(px); CALLS.append((Hx,Hy,wavelength))
    for si,surf in enumerate(self.surface_group.surfaces):
        last=(si==len(self.surface_group.surfaces)-1)
        for q,attr in (('x','x'),('y','y'),('z','z'),('L','L'),('M','M'),('N','N'),('opd','opd'),('i','intensity')):
            arr=np.empty(n,dtype=object)
            for k in range(n):
                arr[k]=SV(t=UF[q](T(Hx),T(Hy),T(px[k]),T(py[k]),T(wavelength))) if last else SV(0.0)
            setattr(surf,attr,arr.view(sym2.SArr))
class Two(BaseDistribution):
    def __init__(s): s.x=sym2.to_obj(np.array([0.0])); s.y=sym2.to_obj(np.array([0.0])); 
    def generate_points(s,n,vx=0,vy=0): pass
w1,w2,w3,pa,pb,pc_,pd=z3.Reals('w1 w2 w3 pa pb pc pd')
def harness():
    o=Optic()
    o.add_surface(index=0, thickness=np.inf); o.add_surface(index=1, radius=50.0, thickness=5.0, material=IdealMaterial(1.5), is_stop=True); o.add_surface(index=2)
    o.set_aperture('EPD', 10.0); o.set_field_type('angle'); o.add_field(y=0); o.add_field(y=5.0)
    o.add_wavelength(SV(t=w1)); o.add_wavelength(SV(t=w2),is_primary=True)
    o.trace=types.MethodType(fake_trace,o)
    d=Two(); d.x=np.array([SV(t=pa),SV(t=pb)],dtype=object).view(sym2.SArr); d.y=np.array([SV(t=pc_),SV(t=pd)],dtype=object).view(sym2.SArr)
    sd=SpotDiagram(o,fields=[(0.0,1.0)],wavelengths=[SV(t=w3)],num_rings=2,distribution=d)
    return sd, sd.centroid(), sd.rms_spot_radius()
try: res=explore(harness, [], maxpaths=20)
except Exception:
    import traceback; traceback.print_exc(); sys.exit()
print(len(res),'paths')
for r in res:
    print(r['trace'],r['status'])
    if r['out']: print(r['out'][1])
