import sys; sys.path.insert(0,'/repo')
import warnings; warnings.filterwarnings('ignore')
import sym1, jet
from sym1 import *
from jet import *
from ratnf import *
import numpy as np, z3, time
from optiland.geometries.standard import StandardGeometry
from optiland.coordinate_system import CoordinateSystem
from optiland.rays.real_rays import RealRays
from optiland.surfaces.standard_surface import Surface
from optiland.materials.ideal import IdealMaterial
class NPJ(sym1.NPProxy):
    def sign(self,a):
        return np.frompyfunc(lambda v: Jet([1.0]) if v>0 else (Jet([-1.0]) if v<0 else Jet([0.0])),1,1)(a)
import optiland.rays.real_rays as rr, optiland.geometries.standard as gs, optiland.surfaces.standard_surface as ss
p=NPJ()
for m in (rr,gs,ss): m.np=p
y0,u0,d,R,k,n1,n2=z3.Reals('y0 u0 d R k n1 n2')
base=[d>0,R!=0,n1>=1,n2>=1]
def J(*c): return Jet([SV(t=x) if isinstance(x,z3.ExprRef) else SV(float(x)) for x in c])
def harness():
    rays=RealRays(0.,0.,0.,0.,0.,1.,1.,0.55)
    # direction: tangent eps*u0 -> M = eps*u0 (1 - eps^2 u0^2/2..), N = 1 - eps^2 u0^2/2
    rays.x=jarr(J(0)); rays.y=jarr(J(0,y0)); rays.z=jarr(J(-d))
    rays.L=jarr(J(0)); rays.M=jarr(J(0,u0,0)); rays.N=jarr(J(1,0,-u0*u0/2))
    rays.opd=jarr(J(0)); rays.i=jarr(J(1)); rays.w=jarr(J(0.55))
    g=StandardGeometry(CoordinateSystem(),SV(t=R),SV(t=k))
    s=Surface(g,IdealMaterial(SV(t=n1),SV(0.0)),IdealMaterial(SV(t=n2),SV(0.0)))
    s._trace_real(rays)
    return s
t0=time.time()
res=explore(harness, base, maxpaths=200)
print(len(res),'paths',time.time()-t0)
import collections; print(collections.Counter(r['status'] for r in res))
for r in res:
    if r['out'] is None: continue
    s=r['out']; y=s.y[0]; M=s.M[0]; N=s.N[0]
    if not isinstance(y,Jet) or not y.a[1].sym: print(r['trace'],'nonfinite',y); continue
    tan=M/N
    ypar=y0+d*u0; upar=(n1*u0-ypar*(n2-n1)/R)/n2
    obs={'y0':y.a[0].term()==0,'y1':None,'y2':y.a[2].term()==0,'u0':tan.a[0].term()==0,'u1':None,'u2':tan.a[2].term()==0}
    for nm,(l,rhs) in (('y1',(y.a[1].term(),ypar)),('u1',(tan.a[1].term(),upar))):
        ob,_=eq_poly(l,rhs); obs[nm]=ob
    print(r['trace'])
    for nm,ob in obs.items():
        print('   ',nm,prove(ob,r['pc'],r['defs'],base,timeout=60)); sys.stdout.flush()
