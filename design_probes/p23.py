import z3,sys,time
sys.path.insert(0,'.')
from sym1 import solve
n=4
a=[z3.Real(f'a{i}') for i in range(n)]; c=[z3.Real(f'c{i}') for i in range(n)]; s=[z3.Real(f's{i}') for i in range(n)]
base=[x>=0 for x in a]+[c[i]*c[i]+s[i]*s[i]==1 for i in range(n)]
re=sum(a[i]*c[i] for i in range(n)); im=sum(a[i]*s[i] for i in range(n)); tot=sum(a)
print('strehl<=1',solve(base+[re*re+im*im>tot*tot],timeout=120))
# energy: sum over 4x4 DFT of |P|^2 = 16*sum|P|^2 -> with only 4 nonzero pupil samples at (1,1),(1,2),(2,1),(2,2)
import itertools
pos=[(1,1),(1,2),(2,1),(2,2)]
def tw(k):  # exp(-2 pi i k/4) -> (re,im)
    return [(1,0),(0,-1),(-1,0),(0,1)][k%4]
E=0
for u,v in itertools.product(range(4),range(4)):
    R=0;I=0
    for j,(p,q) in enumerate(pos):
        tr,ti=tw(u*p+v*q)
        pr,pi=a[j]*c[j],a[j]*s[j]
        R=R+pr*tr-pi*ti; I=I+pr*ti+pi*tr
    E=E+R*R+I*I
print('energy',solve(base+[E!=16*sum(a[j]*a[j] for j in range(n))],timeout=120))
