import z3, time, sys
L,M,N,nx,ny,nz,u,root = z3.Reals('L M N nx ny nz u root')
base=[L*L+M*M+N*N==1, nx*nx+ny*ny+nz*nz==1, u>0]
dot = L*nx+M*ny+N*nz
base += [dot>0, root>=0, root*root==1-u*u*(1-dot*dot)]
tx=u*L+nx*root-u*nx*dot
ty=u*M+ny*root-u*ny*dot
tz=u*N+nz*root-u*nz*dot
goals={'unit':tx*tx+ty*ty+tz*tz!=1,
 'snellx':(ty*nz-tz*ny) - u*(M*nz-N*ny)!=0,
 'half':tx*nx+ty*ny+tz*nz<0}
for name,g in goals.items():
    s=z3.Solver(); s.set('timeout',60000)
    s.add(base+[g])
    open(f'{name}.smt2','w').write('(set-logic QF_NRA)\n'+s.to_smt2())
    t=time.time(); r=s.check(); print(name,r,round(time.time()-t,2)); sys.stdout.flush()
