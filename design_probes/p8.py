import sys; sys.path.insert(0,'/repo')
import warnings; warnings.filterwarnings('ignore')
import sym1
from sym1 import *
import numpy as np, z3, time, collections
from optiland.geometries.standard import StandardGeometry
from optiland.geometries.plane import Plane
from optiland.coordinate_system import CoordinateSystem
from optiland.rays.paraxial_rays import ParaxialRays
from optiland.surfaces.standard_surface import Surface
from optiland.surfaces.surface_group import SurfaceGroup
from optiland.materials.ideal import IdealMaterial
sym1.install()
K=int(sys.argv[1]) if len(sys.argv)>1 else 3
Rs=[z3.Real(f'R{i}') for i in range(K)]; ts=[z3.Real(f't{i}') for i in range(K)]; ns=[z3.Real(f'n{i}') for i in range(K+1)]
y0,u0,z0=z3.Reals('y0 u0 z0')
base=[r!=0 for r in Rs]+[n>=1 for n in ns]
def harness():
    surfs=[]; z=SV(0.0)
    for i in range(K):
        g=StandardGeometry(CoordinateSystem(z=z),SV(t=Rs[i]),SV(0.0))
        surfs.append(Surface(g,IdealMaterial(SV(t=ns[i])),IdealMaterial(SV(t=ns[i+1]))))
        z=z+SV(t=ts[i])
    sg=SurfaceGroup(surfs)
    rays=ParaxialRays(0.,0.,0.,0.55)
    rays.y=sarr('y0'); rays.u=sarr('u0'); rays.z=sarr('z0'); rays.w=carr(0.55)
    sg.trace(rays)
    return sg
t0=time.time()
res=explore(harness, base)
print(len(res),'paths',time.time()-t0)
r=res[0]; sg=r['out']
# oracle: ABCD
y=y0+u0*(0-z0); nu=ns[0]*u0
obs=[]
for i in range(K):
    nu=nu-y*(ns[i+1]-ns[i])/Rs[i]
    obs.append(z3.And(sg.surfaces[i].y[0].term()==y, sg.surfaces[i].u[0].term()*ns[i+1]==nu))
    y=y+ts[i]*nu/ns[i+1]
for i,ob in enumerate(obs):
    print(i,prove(ob,r['pc'],r['defs'],base,timeout=60))
