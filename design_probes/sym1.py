"""Exploratory prototype v1: SV scalar (concrete-or-symbolic) in numpy object arrays; forking on __bool__."""
import z3, numpy as np, time, math, subprocess, tempfile, os
from fractions import Fraction

class PathEnd(BaseException): pass

class Engine:
    def __init__(self, base=()):
        self.prefix=[]; self.trace=[]; self.pc=[]; self.defs=[]; self.n=0
        self.cache={}; self.memo={}; self.forced=set(); self.base=list(base)
    def fresh(self,name):
        self.n+=1; return z3.Real(f'{name}!{self.n}')
    def feasible(self,cond):
        s=z3.Solver(); s.set('timeout',1500); s.add(self.base+self.pc+self.defs+[cond])
        return str(s.check())!='unsat'
    def decide(self, cond):
        cond=z3.simplify(cond)
        if z3.is_true(cond): return True
        if z3.is_false(cond): return False
        key=cond.get_id()
        if key in self.cache: return self.cache[key]
        nk=z3.simplify(z3.Not(cond)).get_id()
        i=len(self.trace)
        if i<len(self.prefix): v=self.prefix[i]
        else:
            v=True
            if not self.feasible(cond): v=False; self.forced.add(i)
            elif not self.feasible(z3.Not(cond)): self.forced.add(i)
        self.trace.append(v)
        self.pc.append(cond if v else z3.Not(cond))
        self.cache[key]=v; self.cache[nk]=not v
        return v
E=None

def rv(c): return z3.RealVal(str(Fraction(float(c))))
class SymBool:
    def __init__(s,t): s.t=t
    def __bool__(s): return E.decide(s.t)
    def __or__(s,o): return SymBool(z3.Or(s.t,o.t if isinstance(o,SymBool) else z3.BoolVal(bool(o))))
    __ror__=__or__
    def __and__(s,o): return SymBool(z3.And(s.t,o.t if isinstance(o,SymBool) else z3.BoolVal(bool(o))))
    __rand__=__and__
    def __invert__(s): return SymBool(z3.Not(s.t))

_f=np.float64
class SV:
    __slots__=('c','t')
    def __init__(s,c=None,t=None):
        s.c=None if c is None else float(c); s.t=t
    @staticmethod
    def of(o):
        if isinstance(o,SV): return o
        if isinstance(o,(bool,np.bool_)): return SV(float(o))
        if isinstance(o,(int,float,np.floating,np.integer)): return SV(float(o))
        return None
    @property
    def sym(s): return s.t is not None
    def term(s): return s.t if s.t is not None else rv(s.c)
    def finite(s): return s.t is not None or math.isfinite(s.c)
    def _arith(s,o,op,rev=False):
        if isinstance(o,np.ndarray): return NotImplemented
        o=SV.of(o)
        if o is None: return NotImplemented
        a,b=(o,s) if rev else (s,o)
        if not a.sym and not b.sym:
            with np.errstate(all='ignore'):
                return SV(op(_f(a.c),_f(b.c)))
        return None,a,b
    def __add__(s,o,rev=False):
        r=s._arith(o,lambda x,y:x+y,rev)
        if not isinstance(r,tuple): return r
        _,a,b=r
        for u in (a,b):
            if not u.finite(): return SV(u.c)
        return SV(t=a.term()+b.term())
    def __radd__(s,o): return s.__add__(o,True)
    def __sub__(s,o,rev=False):
        r=s._arith(o,lambda x,y:x-y,rev)
        if not isinstance(r,tuple): return r
        _,a,b=r
        if not a.finite(): return SV(a.c)
        if not b.finite(): return SV(-b.c)
        return SV(t=a.term()-b.term())
    def __rsub__(s,o): return s.__sub__(o,True)
    def __mul__(s,o,rev=False):
        r=s._arith(o,lambda x,y:x*y,rev)
        if not isinstance(r,tuple): return r
        _,a,b=r
        for u,v in ((a,b),(b,a)):
            if not u.finite():
                if math.isnan(u.c): return SV(u.c)
                if v>0: return SV(u.c)
                if v<0: return SV(-u.c)
                return SV(float('nan'))
            if not u.sym and u.c==0.0: return SV(0.0)   # 0*finite symbolic = 0
        return SV(t=a.term()*b.term())
    def __rmul__(s,o): return s.__mul__(o,True)
    def __truediv__(s,o,rev=False):
        r=s._arith(o,lambda x,y:x/y,rev)
        if not isinstance(r,tuple): return r
        _,a,b=r
        if not a.finite():
            if math.isnan(a.c): return SV(a.c)
            if not b.finite(): return SV(float('nan'))
            if b>0: return SV(a.c)
            if b<0: return SV(-a.c)
            return SV(a.c)  # inf/0 = inf (sign of zero ignored)
        if not b.finite():
            return SV(float('nan')) if math.isnan(b.c) else SV(0.0)
        if b==0:
            if a==0: return SV(float('nan'))
            return SV(float('inf')) if a>0 else SV(float('-inf'))
        return SV(t=a.term()/b.term())
    def __rtruediv__(s,o): return s.__truediv__(o,True)
    def __neg__(s): return SV(-s.c) if not s.sym else SV(t=-s.t)
    def __pos__(s): return s
    def __pow__(s,o):
        if isinstance(o,np.ndarray): return NotImplemented
        o=SV.of(o); assert not o.sym, 'symbolic exponent'
        if not s.sym:
            with np.errstate(all='ignore'): return SV(_f(s.c)**_f(o.c))
        e=o.c
        if e==0.5: return s.sqrt()
        assert float(e).is_integer(), e
        e=int(e); r=z3.RealVal(1)
        for _ in range(abs(e)): r=r*s.t
        if e<0:
            return SV(1.0)/SV(t=r)
        return SV(t=r)
    def __abs__(s):
        if not s.sym: return SV(abs(s.c))
        return s if s>=0 else -s
    def sqrt(s):
        if not s.sym:
            with np.errstate(all='ignore'): return SV(np.sqrt(_f(s.c)))
        if s<0: return SV(float('nan'))
        key=('sqrt',z3.simplify(s.t).get_id())
        if key in E.memo: return E.memo[key][0]
        v=E.fresh('sqrt'); E.defs+= [v>=0, v*v==s.t]; r=SV(t=v); E.memo[key]=(r,s.t); return r
    def _trig(s):
        t=z3.simplify(s.t); key=('trig',t.get_id())
        if key in E.memo: return E.memo[key][:2]
        nt=z3.simplify(-s.t); nkey=('trig',nt.get_id())
        if nkey in E.memo:
            c,sn=E.memo[nkey][:2]; r=(c,-sn,t); E.memo[key]=r; return r[:2]
        c=E.fresh('cos'); sn=E.fresh('sin'); E.defs.append(c*c+sn*sn==1)
        hp=rv(math.pi/2); pi_=rv(math.pi)
        E.defs+=[z3.Implies(z3.And(t>-hp,t<hp),c>0), z3.Implies(z3.And(t>0,t<pi_),sn>0), z3.Implies(z3.And(t<0,t>-pi_),sn<0), z3.Implies(t==0,z3.And(c==1,sn==0))]
        r=(SV(t=c),SV(t=sn),t); E.memo[key]=r; return r[:2]
    def cos(s):
        if not s.sym: return SV(math.cos(s.c))
        return s._trig()[0]
    def sin(s):
        if not s.sym: return SV(math.sin(s.c))
        return s._trig()[1]
    def radians(s): return s*(math.pi/180.0)
    deg2rad=radians
    def tan(s):
        if not s.sym: return SV(math.tan(s.c))
        c,sn=s._trig(); return sn/c
    def exp(s):
        if not s.sym:
            with np.errstate(all='ignore'): return SV(np.exp(_f(s.c)))
        t=z3.simplify(s.t)
        if z3.is_rational_value(t) and t.as_fraction()==0: return SV(1.0)
        key=('exp',t.get_id())
        if key in E.memo: return E.memo[key][0]
        v=E.fresh('exp'); E.defs+=[v>0, z3.Implies(t<=0,v<=1), z3.Implies(t>=0,v>=1), z3.Implies(t==0,v==1)]
        r=SV(t=v); E.memo[key]=(r,t); return r
    def _cmp(s,o,op,zop):
        if isinstance(o,np.ndarray): return NotImplemented
        o=SV.of(o)
        if o is None: return NotImplemented
        if not s.sym and not o.sym: return bool(op(s.c,o.c))
        for u in (s,o):
            if not u.sym and math.isnan(u.c): return op is _ne
        if not s.finite(): return bool(op(s.c,0.0))
        if not o.finite(): return bool(op(0.0,o.c))
        return SymBool(zop(s.term(),o.term()))
    def __lt__(s,o): return s._cmp(o,lambda a,b:a<b,lambda a,b:a<b)
    def __le__(s,o): return s._cmp(o,lambda a,b:a<=b,lambda a,b:a<=b)
    def __gt__(s,o): return s._cmp(o,lambda a,b:a>b,lambda a,b:a>b)
    def __ge__(s,o): return s._cmp(o,lambda a,b:a>=b,lambda a,b:a>=b)
    def __eq__(s,o): return s._cmp(o,lambda a,b:a==b,lambda a,b:a==b)
    def __ne__(s,o): return s._cmp(o,_ne,lambda a,b:a!=b)
    def __hash__(s): return 0
    def __float__(s):
        if s.sym: raise RuntimeError('concretization of symbolic SV')
        return s.c
    def __bool__(s):
        if s.sym: return bool(s!=0)
        return s.c!=0
    def __deepcopy__(s,m): return s
    def __copy__(s): return s
    def __repr__(s): return f'SV({s.t if s.sym else s.c})'
def _ne(a,b): return a!=b

def sarr(*names):
    return np.array([SV(t=z3.Real(n)) for n in names],dtype=object)
def carr(*vals):
    return np.array([SV(v) for v in vals],dtype=object)

def explore(fn, base=(), maxpaths=500, verbose=False):
    global E
    stack=[[]]; results=[]
    while stack and len(results)<maxpaths:
        pre=stack.pop()
        E=Engine(base); E.prefix=pre
        try:
            out=fn(); status='ok'
        except PathEnd as e:
            out=None; status=f'end:{e}'
        results.append(dict(trace=list(E.trace),pc=list(E.pc),defs=list(E.defs),out=out,status=status,memo=E.memo))
        for i in range(len(pre),len(E.trace)):
            if i in E.forced: continue
            stack.append(E.trace[:i]+[not E.trace[i]])
    return results

def smt2(assertions):
    s=z3.Solver(); s.add(assertions)
    return '(set-logic ALL)\n'+s.to_smt2()
def solve(assertions, timeout=60, solvers=('z3','z3-new','cvc5')):
    txt=smt2(assertions)
    with tempfile.NamedTemporaryFile('w',suffix='.smt2',delete=False) as f: f.write(txt); fn=f.name
    procs={}
    for s in solvers:
        cmd={'z3':['z3',f'-T:{timeout}',fn],'z3-new':['z3-new',f'-T:{timeout}',fn],'cvc5':['cvc5',f'--tlimit={timeout*1000}',fn]}[s]
        procs[s]=subprocess.Popen(cmd,stdout=subprocess.PIPE,stderr=subprocess.STDOUT,text=True)
    t0=time.time(); res=None
    while time.time()-t0<timeout+5 and procs:
        for s,p in list(procs.items()):
            if p.poll() is not None:
                out=p.stdout.read().strip().split('\n')[0]
                del procs[s]
                if out in('sat','unsat'):
                    res=(out,s,round(time.time()-t0,2)); break
        if res: break
        time.sleep(0.02)
    for p in procs.values(): p.kill()
    os.unlink(fn)
    return res or ('unknown',None,round(time.time()-t0,2))

def prove(ob, pc, defs, base, timeout=60):
    """assumption-relaxation ladder: unsat under fewer assumptions is still a proof."""
    ladders=[('defs',defs),('defs+pc',defs+pc),('all',defs+pc+list(base))]
    tot=0
    for name,ass in ladders:
        r=solve(ass+[z3.Not(ob)],timeout=timeout); tot+=r[2]
        if r[0]=='unsat': return ('proved',name,r[1],round(tot,2))
        if r[0]=='sat' and name=='all': return ('CEX',name,r[1],round(tot,2))
    return ('unknown',None,None,round(tot,2))

class NPProxy:
    def __getattr__(self,name): return getattr(np,name)
    def sign(self,a):
        a=np.asarray(a)
        if a.dtype!=object: return np.sign(a)
        def f(v):
            v=SV.of(v)
            if not v.sym: return SV(float(np.sign(v.c)))
            if v<0: return SV(-1.0)
            if v>0: return SV(1.0)
            return SV(0.0)
        return np.frompyfunc(f,1,1)(a)
    def isinf(self,a):
        a=np.asarray(a)
        if a.dtype!=object: return np.isinf(a)
        return np.frompyfunc(lambda v:(not SV.of(v).sym) and math.isinf(SV.of(v).c),1,1)(a).astype(bool)
    def isnan(self,a):
        a=np.asarray(a)
        if a.dtype!=object: return np.isnan(a)
        return np.frompyfunc(lambda v:(not SV.of(v).sym) and math.isnan(SV.of(v).c),1,1)(a).astype(bool)
def install():
    import sys
    p=NPProxy()
    for n,m in list(sys.modules.items()):
        if n.startswith('optiland') and getattr(m,'np',None) is np: m.np=p
