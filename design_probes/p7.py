import sys; sys.path.insert(0,'/repo')
import warnings; warnings.filterwarnings('ignore')
import sym1
from sym1 import *
import numpy as np, z3, time, collections
from optiland.geometries.standard import StandardGeometry
from optiland.coordinate_system import CoordinateSystem
from optiland.rays.real_rays import RealRays
from optiland.surfaces.standard_surface import Surface
from optiland.materials.ideal import IdealMaterial
sym1.install()
X=dict((n,z3.Real(n)) for n in 'x y z L M N R k n1 n2 opd0'.split())
base=[X['L']**2+X['M']**2+X['N']**2==1, X['R']!=0, X['n1']>=1, X['n2']>=1]
def harness():
    rays=RealRays(0.,0.,0.,0.,0.,1.,1.,0.55)
    for n in 'xyzLMN': setattr(rays,n,sarr(n))
    rays.opd=sarr('opd0'); rays.i=carr(1.0); rays.w=carr(0.55)
    g=StandardGeometry(CoordinateSystem(),SV(t=X['R']),SV(t=X['k']))
    s=Surface(g,IdealMaterial(SV(t=X['n1']),SV(0.0)),IdealMaterial(SV(t=X['n2']),SV(0.0)))
    s._trace_real(rays)
    return s
t0=time.time()
res=explore(harness, base, maxpaths=500)
print(len(res),'paths', time.time()-t0)
print(collections.Counter(r['status'] for r in res))
fin=[]
for r in res:
    out=r['out']
    if out is None: continue
    vals=[out.x[0],out.L[0],out.opd[0],out.intensity[0]]
    k=tuple('S' if v.sym else v.c for v in vals)
    if k[0]=='S' and k[1]=='S': fin.append(r)
    print(len(r['trace']),k)
import pickle
print(len(fin),'finite paths')
# obligations on first few finite paths
for r in fin[:3]:
    s=r['out']; px,py,pz=[getattr(s,a)[0].term() for a in 'xyz']; L,M,N=[getattr(s,a)[0].term() for a in 'LMN']
    k,Rr,n1,n2=X['k'],X['R'],X['n1'],X['n2']
    obs={'onsurf': px*px+py*py+(1+k)*pz*pz-2*Rr*pz==0,
         'unit': L*L+M*M+N*N==1,
         'opd': z3.Or(s.opd[0].term()-X['opd0']==n1*((px-X['x'])*X['L']+(py-X['y'])*X['M']+(pz-X['z'])*X['N']), False)}
    # snell with true gradient normal g=(px,py,(1+k)pz-R): n2 (d' x g) = n1 (d x g)
    g=(px,py,(1+k)*pz-Rr); d0=(X['L'],X['M'],X['N']); d1=(L,M,N)
    def cross(a,b): return (a[1]*b[2]-a[2]*b[1], a[2]*b[0]-a[0]*b[2], a[0]*b[1]-a[1]*b[0])
    c0=cross(d0,g); c1=cross(d1,g)
    obs['snell']=z3.And(*[n2*c1[i]==n1*c0[i] for i in range(3)])
    obs['halfspace']= (d0[0]*g[0]+d0[1]*g[1]+d0[2]*g[2])*(d1[0]*g[0]+d1[1]*g[1]+d1[2]*g[2])>=0
    for nm,ob in obs.items():
        print(r['trace'],nm,prove(ob,r['pc'],r['defs'],base,timeout=90)); sys.stdout.flush()
