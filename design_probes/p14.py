import z3,time,sys
sys.path.insert(0,'.')
from sym1 import solve
k0=z3.Reals('a1 a2 a3'); k1=z3.Reals('b1 b2 b3'); E=z3.Reals('e1 e2 e3'); mag=z3.Real('mag')
def cross(a,b): return (a[1]*b[2]-a[2]*b[1], a[2]*b[0]-a[0]*b[2], a[0]*b[1]-a[1]*b[0])
def dot(a,b): return sum(x*y for x,y in zip(a,b))
s0=cross(k0,k1)
base=[dot(k0,k0)==1,dot(k1,k1)==1,dot(E,k0)==0,mag>0,mag*mag==dot(s0,s0)]
s=[x/mag for x in s0]
p0=cross(k0,s); p1=cross(k1,s)
out=[dot(s,E)*s[i]+dot(p0,E)*p1[i] for i in range(3)]
# clear denominators manually: multiply by mag^2
sE=dot(s0,E); p0n=cross(k0,s0); p1n=cross(k1,s0)   # times mag
outn=[sE*s0[i]+dot(p0n,E)*p1n[i] for i in range(3)]  # = out*mag^2
ob_norm = dot(outn,outn)==dot(E,E)*mag*mag*mag*mag
ob_trans= dot(outn,k1)==0
for nm,ob in (('transverse',ob_trans),('norm',ob_norm)):
    print(nm, solve(base+[z3.Not(ob)],timeout=120)); sys.stdout.flush()
