"""numpy façade ("all-object mode") + builtin shims, installed into optiland's module
namespaces at run time (no change to /repo).

Every array optiland creates through `np.<creation function>` becomes a dtype=object array
of SV (class SArr); numpy's own object loops then drive +,-,*,/,**, comparisons, fancy
indexing, where, column_stack, ...; the functions numpy has no object loop for are
supplied here element-wise.
"""
import builtins
import importlib
import math
import pkgutil
import sys

import numpy as np
import z3

from . import sv as _sv
from .sv import SV, SymBool, PathEnd, Leak

_isinstance = builtins.isinstance
_float = builtins.float
_int = builtins.int


class SArr(np.ndarray):
    """object ndarray of SV; astype(float) is the identity; raw numbers stored into it are wrapped"""

    def astype(self, dtype, *a, **k):
        if self.dtype == object and (dtype is complex or dtype is np.complex128):
            from .cplx import SC
            out = np.empty(self.shape, dtype=object)
            for idx in np.ndindex(self.shape):
                out[idx] = SC.of(self[idx])
            return out.view(SArr)
        if self.dtype == object and (dtype is sym_float or dtype is _float or dtype is np.float64
                                     or dtype == np.dtype('float64')):
            return self.copy()
        return np.ndarray.astype(self, dtype, *a, **k)

    def __setitem__(self, key, value):
        if self.dtype == object:
            value = _wrap_value(value)
        np.ndarray.__setitem__(self, key, value)

    def tobytes(self, *a, **k):
        """value-based bytes (raw bytes of an object array would be pointers): equal terms give equal bytes, so code that
        keys a cache on array.tobytes() behaves on symbolic arrays as it does on floats"""
        if self.dtype == object:
            parts = []
            for v in self.reshape(-1):
                if _isinstance(v, SV):
                    parts.append(repr(v.c) if not v.sym else v.t.sexpr())
                else:
                    parts.append(repr(v))
            return ('|'.join(parts) + f'#{self.shape}').encode()
        return np.ndarray.tobytes(self, *a, **k)

    def __float__(self):
        if self.dtype == object:
            raise TypeError('only 0-dimensional arrays can be converted to Python scalars') if self.ndim > 0 \
                else Leak('float of SArr')
        return np.ndarray.__float__(self)


def _wrap_value(v):
    if _isinstance(v, (SV, SC_TYPES)) or type(v).__name__ == 'Jet':
        return v
    if _isinstance(v, (bool, np.bool_)):
        return v
    if _isinstance(v, (_int, _float, np.floating, np.integer)):
        return SV(_float(v))
    if _isinstance(v, complex):
        from .cplx import SC
        return SC(SV(v.real), SV(v.imag))
    if _isinstance(v, np.ndarray) and v.dtype != object and np.issubdtype(v.dtype, np.number):
        return to_obj(v)
    if _isinstance(v, (list, tuple)):
        return type(v)(_wrap_value(x) for x in v)
    return v


SC_TYPES = ()  # filled by cplx on import


def to_obj(a):
    """convert ndarray / scalar / containers to all-object form"""
    if _isinstance(a, np.ndarray):
        if a.dtype == object:
            return a if _isinstance(a, SArr) else a.view(SArr)
        if a.dtype == bool or np.issubdtype(a.dtype, np.integer):
            return a
        if np.issubdtype(a.dtype, np.complexfloating):
            from .cplx import SC
            out = np.empty(a.shape, dtype=object)
            for idx in np.ndindex(a.shape):
                out[idx] = SC(SV(a[idx].real), SV(a[idx].imag))
            return out.view(SArr)
        if np.issubdtype(a.dtype, np.floating):
            out = np.empty(a.shape, dtype=object)
            for idx in np.ndindex(a.shape):
                out[idx] = SV(_float(a[idx]))
            return out.view(SArr)
        return a
    if _isinstance(a, np.floating):
        return SV(_float(a))
    if _isinstance(a, tuple):
        return tuple(to_obj(x) for x in a)
    if _isinstance(a, list):
        return [to_obj(x) for x in a]
    return a


def has_sv(x):
    if _isinstance(x, (SV,) + SC_TYPES) or type(x).__name__ == 'Jet':
        return True
    if _isinstance(x, np.ndarray):
        return x.dtype == object
    if _isinstance(x, (list, tuple)):
        return any(has_sv(y) for y in x)
    return False


def oarr(x):
    """object ndarray view of anything array-like (numbers wrapped)"""
    if _isinstance(x, np.ndarray) and x.dtype == object:
        return x
    if _isinstance(x, (complex, np.complexfloating)):
        from .cplx import SC
        a = np.empty((), dtype=object)
        a[()] = SC(SV(_float(x.real)), SV(_float(x.imag)))
        return a
    if _isinstance(x, np.ndarray) and np.issubdtype(x.dtype, np.complexfloating):
        return to_obj(x)
    if _isinstance(x, np.ndarray):
        return to_obj(x.astype(_float)) if x.dtype != bool else x
    if _isinstance(x, (SV,) + SC_TYPES) or type(x).__name__ == 'Jet':
        a = np.empty((), dtype=object)
        a[()] = x
        return a
    if _isinstance(x, (list, tuple)):
        if has_sv(x):
            return to_obj(np.array(_wrap_value(x), dtype=object))
        return to_obj(np.array(x, dtype=_float))
    return to_obj(np.asarray(x, dtype=_float))


def _unwrap0(a):
    if _isinstance(a, np.ndarray) and a.ndim == 0:
        return a[()]
    return a


def _map(f, *arrs):
    arrs = [oarr(a) for a in arrs]
    r = np.frompyfunc(f, len(arrs), 1)(*arrs)
    if _isinstance(r, np.ndarray):
        return to_obj(r) if r.ndim > 0 else r[()]
    return r


def _method(name):
    def f(self, a, *args, **kw):
        if _isinstance(a, (SV,) + SC_TYPES):
            return getattr(a, name)()
        return _map(lambda v: getattr(_as_scalar(v), name)(), a)
    f.__name__ = name
    return f


def _as_scalar(v):
    if _isinstance(v, (SV,) + SC_TYPES) or type(v).__name__ == 'Jet':
        return v
    if _isinstance(v, complex):
        from .cplx import SC
        return SC(SV(v.real), SV(v.imag))
    r = SV.of(v)
    if r is None:
        raise TypeError(f'not a scalar: {type(v)}')
    return r


def _is_float_dtype(dtype):
    return dtype is None or dtype is sym_float or dtype is _float or dtype is np.float64 or \
        (not _isinstance(dtype, type) and dtype == np.dtype('float64'))


def _is_complex_dtype(dtype):
    return dtype is complex or dtype is np.complex128


class _LinAlg:
    def norm(self, a, ord=None, axis=None, keepdims=False):
        a = oarr(a)
        sq = a * a
        tot = sq.sum(axis=axis)
        if _isinstance(tot, np.ndarray):
            return _map(lambda v: _as_scalar(v).sqrt(), tot)
        return _as_scalar(tot).sqrt()

    def __getattr__(self, name):
        raise PathEnd('unsupported', f'np.linalg.{name}')


class _UnstubbedGenerator:
    """what np.random.default_rng() returns in a symbolic run: constructing it is harmless, drawing from it must be stubbed by the harness"""

    def __getattr__(self, name):
        raise PathEnd('unsupported', f'random generator method {name} (stub it in the harness)')


class _Random:
    def default_rng(self, *a, **k):
        return _UnstubbedGenerator()

    def __getattr__(self, name):
        raise PathEnd('unsupported', f'np.random.{name} (stub it in the harness)')


class _FFT:
    def fft2(self, a):
        from .cplx import dft2
        return dft2(oarr(a))

    def fftshift(self, a, axes=None):
        return np.fft.fftshift(a, axes=axes)

    def ifftshift(self, a, axes=None):
        return np.fft.ifftshift(a, axes=axes)

    def __getattr__(self, name):
        raise PathEnd('unsupported', f'np.fft.{name}')


class NP:
    """stand-in for the numpy module inside optiland modules"""
    ndarray = np.ndarray
    inf = np.inf
    nan = np.nan
    pi = np.pi
    newaxis = None
    float64 = np.float64
    linalg = _LinAlg()
    random = _Random()
    fft = _FFT()

    def __getattr__(self, name):
        real = getattr(np, name)
        if callable(real) and not _isinstance(real, type):
            def w(*a, **k):
                if 'dtype' in k and k['dtype'] is sym_float:
                    k['dtype'] = _float
                return to_obj(real(*a, **k))
            w.__name__ = name
            return w
        return real

    # ---- creation
    def array(self, obj, dtype=None, **k):
        k.pop('copy', None)
        if _is_float_dtype(dtype) or _is_complex_dtype(dtype):
            if has_sv(obj):
                return to_obj(np.array(_wrap_value(obj) if _isinstance(obj, (list, tuple)) else obj,
                                       dtype=object, **k))
            a = np.array(obj, dtype=None if dtype is None else (_float if _is_float_dtype(dtype) else complex), **k)
            if a.dtype == object:
                return a  # e.g. array of None / strings
            if dtype is None and (a.dtype == bool or np.issubdtype(a.dtype, np.integer)) and not _isinstance(obj, np.ndarray):
                # python ints in a fresh array: optiland treats them as numbers
                return to_obj(a.astype(_float)) if a.dtype != bool else a
            return to_obj(a)
        return np.array(obj, dtype=dtype, **k)

    def asarray(self, obj, dtype=None, **k):
        if _isinstance(obj, np.ndarray) and obj.dtype == object:
            return obj
        return self.array(obj, dtype=dtype)

    def _mk(self, fn, shape, dtype, *a):
        if _is_float_dtype(dtype) or _is_complex_dtype(dtype):
            return to_obj(fn(shape, *a, dtype=_float))
        return fn(shape, *a, dtype=dtype)

    def zeros(self, shape, dtype=None, **k):
        return self._mk(np.zeros, shape, dtype)

    def ones(self, shape, dtype=None, **k):
        return self._mk(np.ones, shape, dtype)

    def empty(self, shape, dtype=None, **k):
        return self._mk(np.zeros, shape, dtype)

    def full(self, shape, fill_value, dtype=None, **k):
        if _isinstance(fill_value, np.ndarray) and fill_value.ndim > 0:
            return to_obj(np.broadcast_to(oarr(fill_value), shape).copy())
        if _isinstance(fill_value, np.ndarray):
            fill_value = fill_value[()]
        if has_sv(fill_value) or _isinstance(fill_value, (_float, _int, np.floating)) and not _isinstance(fill_value, bool):
            out = np.empty(shape, dtype=object)
            fv = _wrap_value(fill_value)
            for idx in np.ndindex(out.shape):
                out[idx] = fv
            return out.view(SArr)
        return np.full(shape, fill_value, dtype=dtype)

    def _like(self, a, val):
        a = np.asarray(a) if not _isinstance(a, np.ndarray) else a
        if a.dtype == bool:
            return np.full(a.shape, bool(val))
        return self.full(a.shape, _float(val))

    def zeros_like(self, a, dtype=None, **k):
        return self._like(a, 0.0)

    def ones_like(self, a, dtype=None, **k):
        return self._like(a, 1.0)

    def empty_like(self, a, dtype=None, **k):
        return self._like(a, 0.0)

    def full_like(self, a, fill_value, dtype=None, **k):
        a = np.asarray(a) if not _isinstance(a, np.ndarray) else a
        return self.full(a.shape, fill_value)

    def linspace(self, start, stop, num=50, endpoint=True, **k):
        if has_sv(start) or has_sv(stop):
            num = _int(num)
            s0, s1 = _as_scalar(start), _as_scalar(stop)
            div = (num - 1) if endpoint else num
            out = np.empty(num, dtype=object)
            for i in range(num):
                out[i] = s0 + (s1 - s0) * (i / div) if div > 0 else s0
            if endpoint and num > 1:
                out[-1] = s1
            return out.view(SArr)
        return to_obj(np.linspace(start, stop, num, endpoint=endpoint, **k))

    def arange(self, *a, **k):
        if has_sv(a):
            raise PathEnd('unsupported', 'arange with symbolic argument')
        r = np.arange(*a, **k)
        return to_obj(r)

    def copy(self, a, **k):
        if _isinstance(a, (SV,) + SC_TYPES):
            return a
        return to_obj(np.copy(a))

    # ---- element-wise math
    sqrt = _method('sqrt')
    sin = _method('sin')
    cos = _method('cos')
    tan = _method('tan')
    exp = _method('exp')
    log = _method('log')
    radians = _method('radians')
    deg2rad = _method('deg2rad')
    degrees = _method('degrees')
    rad2deg = _method('rad2deg')
    arccos = _method('arccos')
    arcsin = _method('arcsin')
    arctan = _method('arctan')
    conj = _method('conjugate')
    conjugate = _method('conjugate')

    def real(self, a):
        if _isinstance(a, (SV,) + SC_TYPES):
            return a.real
        return _map(lambda v: _as_scalar(v).real, a)

    def imag(self, a):
        if _isinstance(a, (SV,) + SC_TYPES):
            return a.imag
        return _map(lambda v: _as_scalar(v).imag, a)

    def abs(self, a):
        if _isinstance(a, (SV,) + SC_TYPES):
            return abs(a)
        return _map(lambda v: abs(_as_scalar(v)), a)
    absolute = abs

    def arctan2(self, y, x):
        from .trig import arctan2_of
        return _map(lambda p, q: arctan2_of(p, q), y, x)

    def hypot(self, x, y):
        return _map(lambda p, q: (_as_scalar(p) * _as_scalar(p) + _as_scalar(q) * _as_scalar(q)).sqrt(), x, y)

    def copysign(self, a, b):
        def f(x, y):
            x, y = _as_scalar(x), _as_scalar(y)
            m = abs(x)
            return -m if y < 0 else m
        return _map(f, a, b)

    def sign(self, a):
        def f(v):
            v = _as_scalar(v)
            if type(v).__name__ == 'Jet':
                return SV(1.0) if v > 0 else (SV(-1.0) if v < 0 else SV(0.0))
            if not v.sym:
                return SV(_float(np.sign(v.c)))
            if v < 0:
                return SV(-1.0)
            if v > 0:
                return SV(1.0)
            return SV(0.0)
        return _map(f, a)

    def _pred(self, a, p):
        if _isinstance(a, (SV,) + SC_TYPES):
            return p(a)
        a = np.asarray(a)
        if a.dtype != object:
            return None
        r = np.frompyfunc(lambda v: p(_as_scalar(v)), 1, 1)(a)
        return r.astype(bool) if _isinstance(r, np.ndarray) else bool(r)

    def isinf(self, a):
        r = self._pred(a, lambda v: (_isinstance(v, SV) and (not v.sym) and math.isinf(v.c)) or
                       (type(v).__name__ == 'Jet' and any((not c.sym) and math.isinf(c.c) for c in v.a)))
        return np.isinf(a) if r is None else r

    def isnan(self, a):
        r = self._pred(a, lambda v: (_isinstance(v, SV) and (not v.sym) and math.isnan(v.c)) or
                       (type(v).__name__ == 'Jet' and any((not c.sym) and math.isnan(c.c) for c in v.a)))
        return np.isnan(a) if r is None else r

    def isfinite(self, a):
        r = self._pred(a, lambda v: v.finite() if type(v).__name__ == 'Jet' else ((not _isinstance(v, SV)) or v.sym or math.isfinite(v.c)))
        return np.isfinite(a) if r is None else r

    def isscalar(self, x):
        return _isinstance(x, (SV,) + SC_TYPES) or type(x).__name__ == 'Jet' or np.isscalar(x)

    def size(self, a, axis=None):
        if _isinstance(a, (SV,) + SC_TYPES):
            return 1
        return np.size(a, axis)

    def interp(self, x, xp, fp, left=None, right=None):
        xp = [_as_scalar(v) for v in np.ravel(oarr(xp))]
        fp = [_as_scalar(v) for v in np.ravel(oarr(fp))]

        def one(v):
            v = _as_scalar(v)
            if v <= xp[0]:
                return fp[0]
            if v >= xp[-1]:
                return fp[-1]
            for i in range(len(xp) - 1):
                if v < xp[i + 1]:
                    return fp[i] + (fp[i + 1] - fp[i]) * (v - xp[i]) / (xp[i + 1] - xp[i])
            return fp[-1]
        if _isinstance(x, SV) or np.isscalar(x):
            return one(x)
        return _map(one, x)

    def clip(self, a, lo, hi):
        def one(v):
            v = _as_scalar(v)
            if lo is not None and v < lo:
                return _as_scalar(lo)
            if hi is not None and v > hi:
                return _as_scalar(hi)
            return v
        if _isinstance(a, SV):
            return one(a)
        return _map(one, a)

    # ---- reductions with comparison forks
    def _reduce_cmp(self, a, better, axis=None, skipnan=False):
        a = oarr(a)
        if axis is not None:
            return to_obj(np.apply_along_axis(lambda v: self._reduce_cmp(v, better, None, skipnan), axis, a))
        flat = [_as_scalar(v) for v in a.reshape(-1)]
        if any(_isinstance(v, SC_TYPES) for v in flat):
            # numpy orders complex numbers by real part first: supported when every imaginary part is concretely zero
            cs = [v if _isinstance(v, SC_TYPES) else None for v in flat]
            if any(c is not None and not ((not c.im.sym and c.im.c == 0.0) or ((c.im == 0) is True)) for c in cs):
                raise PathEnd('unsupported', 'max/min of complex values with non-zero imaginary part')
            res = [c.re if c is not None else v for c, v in zip(cs, flat)]
            r = self._reduce_cmp(oarr(res), better, None, skipnan)
            from .cplx import SC
            return SC(r, SV(0.0))
        if skipnan:
            flat = [v for v in flat if v.sym or not math.isnan(v.c)]
        m = flat[0]
        for v in flat[1:]:
            if not m.sym and math.isnan(m.c):
                return m
            if not v.sym and math.isnan(v.c):
                return v
            if better(v, m):
                m = v
        return m

    def max(self, a, axis=None, **k):
        return self._reduce_cmp(a, lambda v, m: v > m, axis)
    amax = max

    def min(self, a, axis=None, **k):
        return self._reduce_cmp(a, lambda v, m: v < m, axis)
    amin = min

    def nanmax(self, a, axis=None, **k):
        return self._reduce_cmp(a, lambda v, m: v > m, axis, True)

    def nanmin(self, a, axis=None, **k):
        return self._reduce_cmp(a, lambda v, m: v < m, axis, True)

    def fmax(self, a, b):
        return _map(lambda p, q: _as_scalar(p) if _as_scalar(p) >= _as_scalar(q) else _as_scalar(q), a, b)

    def maximum(self, a, b):
        return self.fmax(a, b)

    def minimum(self, a, b):
        return _map(lambda p, q: _as_scalar(p) if _as_scalar(p) <= _as_scalar(q) else _as_scalar(q), a, b)

    def nansum(self, a, axis=None, **k):
        a = oarr(a)
        if axis is not None:
            return to_obj(np.apply_along_axis(lambda v: self.nansum(v), axis, a))
        tot = SV(0.0)
        for v in a.reshape(-1):
            v = _as_scalar(v)
            if _isinstance(v, SV) and not v.sym and math.isnan(v.c):
                continue
            tot = tot + v
        return tot

    def sum(self, a, axis=None, **k):
        if _isinstance(a, (SV,) + SC_TYPES):
            return a
        a = oarr(a)
        if a.dtype == bool:
            return np.sum(a, axis=axis)
        r = a.sum(axis=axis)
        return to_obj(r) if _isinstance(r, np.ndarray) else r

    def mean(self, a, axis=None, **k):
        a = oarr(a)
        if axis is None:
            return self.sum(a) / a.size
        return self.sum(a, axis=axis) / a.shape[axis]

    def argsort(self, a, **k):
        a = oarr(a)
        if a.ndim != 1:
            raise PathEnd('unsupported', 'argsort ndim>1')
        idx = list(range(a.size))
        # insertion sort with symbolic comparisons (stable)
        for i in range(1, len(idx)):
            j = i
            while j > 0 and (_as_scalar(a[idx[j]]) < _as_scalar(a[idx[j - 1]])):
                idx[j], idx[j - 1] = idx[j - 1], idx[j]
                j -= 1
        return np.array(idx, dtype=_int)

    def sort(self, a, **k):
        a = oarr(a)
        return a[self.argsort(a)]

    def any(self, a, axis=None, **k):
        a = np.asarray(a)
        if a.dtype == object:
            return builtins.any(bool(v) for v in a.reshape(-1))
        return np.any(a, axis=axis)

    def all(self, a, axis=None, **k):
        a = np.asarray(a)
        if a.dtype == object:
            return builtins.all(bool(v) for v in a.reshape(-1))
        return np.all(a, axis=axis)

    def where(self, cond, *a):
        if not a:
            return np.where(np.asarray(cond, dtype=bool))
        x, y = a
        return to_obj(np.where(np.asarray(cond, dtype=bool), oarr(x), oarr(y)))

    def einsum(self, spec, *ops):
        from .cplx import einsum_obj
        return einsum_obj(spec, *[oarr(o) for o in ops])

    def matmul(self, a, b):
        return to_obj(np.matmul(oarr(a), oarr(b)))

    def dot(self, a, b):
        return _unwrap0(to_obj(np.dot(oarr(a), oarr(b))))

    def cross(self, a, b, **k):
        return to_obj(np.cross(oarr(a), oarr(b), **k))

    def polyval(self, p, x):
        p = [_as_scalar(v) for v in np.ravel(oarr(p))]
        if _isinstance(x, SV) or np.isscalar(x):
            acc = SV(0.0)
            for c in p:
                acc = acc * x + c
            return acc
        x = oarr(x)
        acc = x * 0
        for c in p:
            acc = acc * x + c
        return to_obj(acc)

    def histogram(self, *a, **k):
        raise PathEnd('unsupported', 'np.histogram')

    def diff(self, a, n=1, axis=-1):
        a = oarr(a)
        if a.ndim != 1 or n != 1:
            return to_obj(np.diff(a, n=n, axis=axis))
        return to_obj(a[1:] - a[:-1])

    def load(self, *a, **k):
        return to_obj(np.load(*a, **k))

    def loadtxt(self, *a, **k):
        return to_obj(np.loadtxt(*a, **k))


NPX = NP()


def sym_float(x=0.0):
    """shadow of builtins.float inside optiland modules"""
    if type(x).__name__ == 'Jet':
        return x
    if _isinstance(x, SV):
        return SV(x.c, x.t, py=True)
    if _isinstance(x, np.ndarray) and x.dtype == object:
        if x.ndim > 0:
            # mimic the installed numpy's rule for float(<non 0-d array>)
            try:
                _float(np.zeros(x.shape))
            except TypeError as e:
                raise TypeError(str(e))
        v = SV.of(x.reshape(-1)[0])
        return SV(v.c, v.t, py=True)
    r = _float(x)
    return SV(r, py=True) if WRAP_ALL_FLOATS else r


WRAP_ALL_FLOATS = False
sym_float.__name__ = 'float'


def sym_isinstance(o, t):
    ts = t if _isinstance(t, tuple) else (t,)
    ts = tuple(_float if x is sym_float else x for x in ts)
    if (_isinstance(o, SV) or type(o).__name__ == 'Jet') and (_float in ts):
        return True
    return _isinstance(o, ts)


_INSTALLED = {}


def import_all_optiland():
    from . import cplx  # noqa: registers SC with the façade
    import optiland
    for m in pkgutil.walk_packages(optiland.__path__, 'optiland.'):
        if '.visualization' in m.name or m.name.startswith('optiland.samples'):
            continue
        try:
            importlib.import_module(m.name)
        except Exception:
            pass


def install(extra_modules=()):
    """rebind np / float / isinstance in every imported optiland module"""
    for n, m in list(sys.modules.items()):
        if m is None or not (n == 'optiland' or n.startswith('optiland.')):
            continue
        if n not in _INSTALLED:
            _INSTALLED[n] = (getattr(m, 'np', None), m.__dict__.get('float'), m.__dict__.get('isinstance'))
        if getattr(m, 'np', None) is np:
            m.np = NPX
        m.float = sym_float
        m.isinstance = sym_isinstance
    for m in extra_modules:
        m.np = NPX


def uninstall():
    for n, (onp, ofl, ois) in _INSTALLED.items():
        m = sys.modules.get(n)
        if m is None:
            continue
        if onp is not None:
            m.np = onp
        for nm, old in (('float', ofl), ('isinstance', ois)):
            if old is None:
                m.__dict__.pop(nm, None)
            else:
                m.__dict__[nm] = old
    _INSTALLED.clear()
