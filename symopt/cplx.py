"""Symbolic complex numbers (pairs of SV) for the Jones / Fresnel / PSF code, and the explicit-sum versions of einsum / DFT."""
import math

import numpy as np

from .sv import SV, SymBool, PathEnd
from . import facade


class SC:
    __slots__ = ('re', 'im')

    def __init__(self, re, im=0.0):
        self.re = SV.of(re)
        self.im = SV.of(im)

    @staticmethod
    def of(o):
        if isinstance(o, SC):
            return o
        if isinstance(o, complex):
            return SC(o.real, o.imag)
        v = SV.of(o)
        if v is None:
            return None
        return SC(v, 0.0)

    def _b(self, o):
        if isinstance(o, np.ndarray) and o.ndim > 0:
            return None
        return SC.of(o)

    def __add__(self, o):
        o = self._b(o)
        if o is None:
            return NotImplemented
        return SC(self.re + o.re, self.im + o.im)
    __radd__ = __add__

    def __sub__(self, o):
        o = self._b(o)
        if o is None:
            return NotImplemented
        return SC(self.re - o.re, self.im - o.im)

    def __rsub__(self, o):
        o = self._b(o)
        if o is None:
            return NotImplemented
        return SC(o.re - self.re, o.im - self.im)

    def __mul__(self, o):
        o = self._b(o)
        if o is None:
            return NotImplemented
        return SC(self.re * o.re - self.im * o.im, self.re * o.im + self.im * o.re)
    __rmul__ = __mul__

    def __truediv__(self, o):
        o = self._b(o)
        if o is None:
            return NotImplemented
        den = o.re * o.re + o.im * o.im
        return SC((self.re * o.re + self.im * o.im) / den, (self.im * o.re - self.re * o.im) / den)

    def __rtruediv__(self, o):
        o = self._b(o)
        if o is None:
            return NotImplemented
        return o.__truediv__(self)

    def __neg__(self):
        return SC(-self.re, -self.im)

    def __pos__(self):
        return self

    def __pow__(self, e):
        e = SV.of(e)
        if e is None or e.sym or not float(e.c).is_integer() or e.c < 0:
            raise PathEnd('unsupported', 'complex power')
        r = SC(1.0, 0.0)
        for _ in range(int(e.c)):
            r = r * self
        return r

    def __abs__(self):
        return (self.re * self.re + self.im * self.im).sqrt()

    def abs2(self):
        return self.re * self.re + self.im * self.im

    def conjugate(self):
        return SC(self.re, -self.im)

    @property
    def real(self):
        return self.re

    @property
    def imag(self):
        return self.im

    def exp(self):
        e = self.re.exp() if (self.re.sym or self.re.c != 0.0) else SV(1.0)
        return SC(e * self.im.cos(), e * self.im.sin())

    def sqrt(self):
        """principal square root; only real arguments occur in optiland (radicand.astype(complex))"""
        if not self.im.sym and self.im.c == 0.0:
            x = self.re
            if x >= 0:
                return SC(x.sqrt(), 0.0)
            return SC(0.0, (-x).sqrt())
        raise PathEnd('unsupported', 'sqrt of a non-real complex')

    def __eq__(self, o):
        o = SC.of(o)
        if o is None:
            return NotImplemented
        a, b = (self.re == o.re), (self.im == o.im)
        if isinstance(a, bool) and isinstance(b, bool):
            return a and b
        return SymBool.__and__(a if isinstance(a, SymBool) else SymBool(_bv(a)), b)

    def __ne__(self, o):
        r = self.__eq__(o)
        return (not r) if isinstance(r, bool) else ~r

    def __hash__(self):
        return 1

    def __bool__(self):
        return bool(self.re != 0) or bool(self.im != 0)

    def __deepcopy__(self, m):
        return self

    def __copy__(self):
        return self

    def __repr__(self):
        return f'SC({self.re!r}, {self.im!r})'


def _bv(b):
    import z3
    return z3.BoolVal(bool(b))


facade.SC_TYPES = (SC,)


# SV <op> complex -> SC
def _sv_complex_patch():
    def wrap(name, rname):
        orig = getattr(SV, name)
        rorig = getattr(SV, rname)

        def f(self, o, *a):
            if isinstance(o, (complex, SC)):
                return getattr(SC.of(self), name)(o)
            return orig(self, o, *a)

        def rf(self, o):
            if isinstance(o, (complex, SC)):
                return getattr(SC.of(o), name)(self)
            return rorig(self, o)
        setattr(SV, name, f)
        setattr(SV, rname, rf)
    for n, r in (('__add__', '__radd__'), ('__sub__', '__rsub__'), ('__mul__', '__rmul__'), ('__truediv__', '__rtruediv__')):
        wrap(n, r)


_sv_complex_patch()


def einsum_obj(spec, *ops):
    """explicit-sum einsum for object arrays (the subscripts optiland uses)"""
    ins, out = spec.replace(' ', '').split('->')
    ins = ins.split(',')
    dims = {}
    for sub, op in zip(ins, ops):
        for ax, ch in enumerate(sub):
            dims[ch] = op.shape[ax]
    summed = [ch for ch in dims if ch not in out]
    res = np.empty([dims[ch] for ch in out], dtype=object)
    for idx in np.ndindex(*res.shape):
        env = dict(zip(out, idx))
        tot = None
        for sidx in np.ndindex(*[dims[ch] for ch in summed]) if summed else [()]:
            env.update(zip(summed, sidx))
            term = None
            for sub, op in zip(ins, ops):
                v = op[tuple(env[ch] for ch in sub)]
                term = v if term is None else term * v
            tot = term if tot is None else tot + term
        res[idx] = tot
    return facade.to_obj(res)


def dft2(a):
    """definitional 2-D DFT for N in {1, 2, 4} (twiddle factors exactly 1, -1, i, -i) and N = 3 (twiddle factors -1/2 -+ i sqrt(3)/2
    with sqrt(3) an exact algebraic atom of the engine)"""
    n0, n1 = a.shape
    for n in (n0, n1):
        if n not in (1, 2, 3, 4):
            raise PathEnd('unsupported', f'fft2 of size {n}')
    import z3
    from . import sv as _svm
    half = SV(t=z3.RealVal('1/2'))
    s3h = None

    def tw(k, n):
        nonlocal s3h
        if n == 3:
            k = k % 3
            if k == 0:
                return SC(1.0, 0.0)
            if s3h is None:
                s3h = SV(t=z3.RealVal(3)).sqrt() * half          # sqrt(3)/2
            return SC(-half, -s3h) if k == 1 else SC(-half, s3h)
        k = (k * (4 // n)) % 4
        return [SC(1.0, 0.0), SC(0.0, -1.0), SC(-1.0, 0.0), SC(0.0, 1.0)][k]
    out = np.empty((n0, n1), dtype=object)
    for u in range(n0):
        for v in range(n1):
            tot = SC(0.0, 0.0)
            for x in range(n0):
                for y in range(n1):
                    tot = tot + SC.of(a[x, y]) * tw(u * x, n0) * tw(v * y, n1)
            out[u, v] = tot
    return facade.to_obj(out)
