"""Orchestrator: python -m symopt.run <PROPERTY> [--tier quick|thorough] [--only substr] [--jobs N]
exit 0: every obligation explored held (inconclusive ones are listed, never counted as held)
exit 1: a replayed violation that is not a listed known finding (prints VIOLATION property=.. replay=..)
exit 2: harness error (never on the baseline tree)
"""
import argparse
import hashlib
import importlib
import inspect
import json
import os
import pickle
import re
import subprocess
import sys
import threading
import time
from concurrent.futures import ThreadPoolExecutor

ROOT = os.path.dirname(os.path.dirname(os.path.abspath(__file__)))
WORK = os.path.join(ROOT, 'work')
REPO = os.environ.get('OPTILAND_REPO', '/repo')


def _env():
    e = dict(os.environ)
    e['PYTHONPATH'] = f'{REPO}:{ROOT}' + (':' + e['PYTHONPATH'] if e.get('PYTHONPATH') else '')
    e['MPLBACKEND'] = 'Agg'
    e['OPTILAND_VERIF'] = '1'
    e['SYMOPT_WORK'] = WORK
    return e


def src_hash(dotted):
    """sha1 of the source of optiland.x.y.Class.method (regenerated from /repo on every run)"""
    parts = dotted.split('.')
    for i in range(len(parts), 0, -1):
        try:
            obj = importlib.import_module('.'.join(parts[:i]))
            for p in parts[i:]:
                obj = getattr(obj, p)
            src = inspect.getsource(obj)
            return hashlib.sha1(src.encode()).hexdigest()[:12]
        except Exception:
            continue
    return None


def run_worker(modname, group, tier, seed, timeout):
    """one worker process explores a group of (hid, case_idx) tasks; returns the list of results"""
    os.makedirs(os.path.join(WORK, 'tasks'), exist_ok=True)
    out = os.path.join(WORK, 'tasks', f'w-{os.getpid()}-{threading.get_ident()}-{time.time_ns()}.pkl')
    cmd = [sys.executable, '-m', 'symopt.worker', modname, json.dumps(group), tier, str(seed), out]
    t0 = time.time()
    timed_out = False
    err = ''
    try:
        env = _env()
        # exploration of one task stops by itself (and reports what it covered) well before the process is killed
        env['SYMOPT_TASK_BUDGET_S'] = str(round(timeout * (0.5 if len(group) > 1 else 0.6), 1))
        p = subprocess.run(cmd, env=env, cwd=ROOT, capture_output=True, text=True, timeout=timeout)
        err = p.stderr[-2000:]
    except subprocess.TimeoutExpired:
        timed_out = True
    res = []
    if os.path.exists(out):
        with open(out, 'rb') as f:
            while True:
                try:
                    res.append(pickle.load(f))
                except EOFError:
                    break
                except Exception:
                    break
        os.unlink(out)
    done = {(r['hid'], r['case_idx']) for r in res}
    for hid, ci in group:
        if (hid, ci) not in done:
            if timed_out:
                res.append(dict(hid=hid, case_idx=ci, timeout=True, wall=round(time.time() - t0, 1)))
                timed_out = False   # only the task that was running is blamed; the rest are re-queued by the caller
            else:
                res.append(dict(hid=hid, case_idx=ci, fatal=None if any(r.get('timeout') for r in res) else 'worker produced no output\n' + err,
                                requeue=any(r.get('timeout') for r in res)))
    return res


def discharge(p, budget, solvers):
    """assumption-relaxation ladder on the external portfolio (fresh processes)"""
    from .solve import run_portfolio, parse_model
    tot = 0.0
    log = []
    rungs = p['rungs']
    for tmo in ([min(5, budget), budget] if budget > 5 else [budget]):
        for name, text in rungs:
            full = (name == 'all')
            r = run_portfolio(text, timeout=tmo, solvers=solvers)
            tot += r['time']
            log.append((name, tmo, r['verdict'], r['solver'], r['time']))
            if r.get('disagree'):
                return dict(verdict='disagree', log=log, time=tot)
            if r['verdict'] == 'unsat':
                return dict(verdict='proved', rung=name, solver=r['solver'], time=round(tot, 3), log=log)
            if r['verdict'] == 'sat' and full:
                # fetch a model (prefer z3: decimal algebraic numbers)
                m = run_portfolio(text, timeout=max(10, tmo), solvers=('z3', 'z3-new'), model=True)
                if m['verdict'] != 'sat':
                    m = run_portfolio(text, timeout=max(10, tmo), solvers=('cvc5py',), model=True)
                vals, funcs = parse_model(m['model_text']) if m['verdict'] == 'sat' else ({}, {})
                return dict(verdict='cex', solver=r['solver'], time=round(tot, 3), model=vals, log=log,
                            model_ok=m['verdict'] == 'sat')
    return dict(verdict='unknown', time=round(tot, 3), log=log)


def replay_batch(scenarios):
    os.makedirs(os.path.join(WORK, 'tasks'), exist_ok=True)
    tag = f'{os.getpid()}-{threading.get_ident()}-{time.time_ns()}'
    fin = os.path.join(WORK, 'tasks', f'rb-{tag}.in.json')
    fout = os.path.join(WORK, 'tasks', f'rb-{tag}.out.json')
    json.dump(scenarios, open(fin, 'w'))
    try:
        subprocess.run([sys.executable, '-m', 'symopt.replay', '--batch', fin, fout], env=_env(), cwd=ROOT,
                       capture_output=True, text=True, timeout=600)
        res = json.load(open(fout))
    except Exception as e:
        res = [dict(status='error', detail=repr(e), obligations={}, observations={}, violated=[])] * len(scenarios)
    for f in (fin, fout):
        try:
            os.unlink(f)
        except OSError:
            pass
    return res


def _float_robust(funcs):
    for tab in funcs.values():
        es = tab.get('entries', [])
        for i in range(len(es)):
            for j in range(i + 1, len(es)):
                a, b = es[i], es[j]
                try:
                    close = all(abs(x - y) <= 1e-6 * (1 + abs(x)) for x, y in zip(a[0], b[0]))
                    if close and abs(a[1] - b[1]) > 1e-9:
                        return False
                except TypeError:
                    return False
    return True


def load_known():
    fn = os.path.join(ROOT, 'known_findings.json')
    if not os.path.exists(fn):
        return []
    return json.load(open(fn)).get('findings', [])


def match_known(known, prop, hid, obname, case):
    for k in known:
        if k.get('status', 'open') != 'open' or k['property'] != prop:
            continue
        if k.get('harness') and k['harness'] != hid:
            continue
        if k.get('obligation') and not re.fullmatch(k['obligation'], obname):
            continue
        cm = k.get('case')
        if cm and any(case.get(a) != b for a, b in cm.items()):
            continue
        return k
    return None


def main(argv=None):
    ap = argparse.ArgumentParser()
    ap.add_argument('prop')
    ap.add_argument('--tier', default=os.environ.get('VERIF_TIER', 'quick'))
    ap.add_argument('--only', default=None, help='substring filter on harness id')
    ap.add_argument('--jobs', type=int, default=int(os.environ.get('SYMOPT_JOBS', '14')))
    ap.add_argument('--replay', default=None)
    ap.add_argument('--verbose', '-v', action='store_true')
    ap.add_argument('--no-evidence', action='store_true')
    ap.add_argument('--smoke', type=int, default=0, help='development aid: run every case N times in concrete mode on random inputs')
    a = ap.parse_args(argv)
    prop = a.prop
    seed = int(os.environ.get('VERIF_SEED', '0'))
    sys.path[:0] = [REPO, ROOT]
    os.environ['MPLBACKEND'] = 'Agg'
    modname = f'checks.{prop}'
    if a.replay:
        sc = json.load(open(a.replay))
        sc.setdefault('module', modname)
        from .replay import run_scenario
        res = run_scenario(sc)
        print(json.dumps({k: res[k] for k in ('status', 'obligations', 'observations', 'violated', 'inputs_used')
                          if k in res}, indent=1, default=repr))
        if res.get('detail'):
            print(res['detail'])
        if res['status'] == 'invalid':
            print('REPLAY: inputs do not satisfy the harness assumptions')
            return 2
        if res['violated']:
            print(f"REPLAY: violation reproduced property={prop} harness={sc['harness']} obligations={res['violated']}")
            return 1
        print('REPLAY: no violation with these inputs')
        return 0

    t_start = time.time()
    mod = importlib.import_module(modname)
    from .harness import REGISTRY
    tier = a.tier
    tasks = []
    for hid, H in REGISTRY.items():
        if H['prop'] != prop or tier not in H['tiers']:
            continue
        if a.only and a.only not in hid:
            continue
        for ci, case in enumerate(H['cases'](tier)):
            tasks.append((hid, ci, case))
    if not tasks:
        print(f'no harness for {prop} tier {tier}')
        return 2
    if a.smoke:
        scs = [dict(module=modname, harness=hid, case_idx=ci, case=case, tier=tier, inputs={'__random__': seed * 1000 + i})
               for (hid, ci, case) in tasks for i in range(a.smoke)]
        outs = replay_batch(scs)
        bad = 0
        for sc, res in zip(scs, outs):
            if res.get('violated') or res.get('status') not in ('ok', 'invalid'):
                bad += 1
                print(sc['harness'], sc['case'], res.get('status'), res.get('violated'), json.dumps(res.get('inputs_used')),
                      json.dumps(res.get('observations'))[:300], (res.get('detail') or '')[-700:])
        print(f'smoke: {len(scs)} concrete runs, {bad} with failures')
        return 0
    qbudget = float(os.environ.get('SYMOPT_QUERY_S', '20' if tier == 'quick' else '60'))
    solvers = ('z3', 'z3-new', 'cvc5', 'cvc5py')
    results = []
    lock = threading.Lock()

    case_of = {(hid, ci): case for hid, ci, case in tasks}

    def do_group(group):
        tmo = max((REGISTRY[h]['timeout'] or (300 if tier == 'quick' else 1500)) for h, _ in group)
        out = []
        todo = list(group)
        while todo:
            rs = run_worker(modname, todo, tier, seed, tmo)
            todo = []
            for r in rs:
                if r.get('requeue'):
                    todo.append((r['hid'], r['case_idx']))
                    continue
                r['case'] = case_of[(r['hid'], r['case_idx'])]
                out.append(r)
                if a.verbose:
                    with lock:
                        print(f"  explored {r['hid']}[{r['case_idx']}] {r['case']}: paths={len(r.get('paths', []))} "
                              f"pending={len(r.get('pending', []))} wall={r.get('wall')}" + (' FATAL' if r.get('fatal') else '')
                              + (' TIMEOUT' if r.get('timeout') else ''), flush=True)
        return out

    # group the cases so that about 2 x jobs worker processes are started (import cost ~2.5 s each); heavy harnesses
    # (declared timeout) get one process per case
    ngroups = max(1, min(len(tasks), a.jobs * 2))
    groups = [[] for _ in range(ngroups)]
    light = [(h, c) for h, c, _ in tasks if not REGISTRY[h]['timeout']]
    heavy = [(h, c) for h, c, _ in tasks if REGISTRY[h]['timeout']]
    for i, t in enumerate(light):
        groups[i % ngroups].append(t)
    groups = [g for g in groups if g] + [[t] for t in heavy]
    with ThreadPoolExecutor(max_workers=max(1, a.jobs)) as ex:
        results = [r for rs in ex.map(do_group, groups) for r in rs]
    order = {(h, c): i for i, (h, c, _) in enumerate(tasks)}
    results.sort(key=lambda r: order[(r['hid'], r['case_idx'])])

    t_explore = round(time.time() - t_start, 1)
    harness_errors = []
    for r in results:
        if r.get('fatal'):
            harness_errors.append(f"{r['hid']}[{r['case_idx']}]: {r['fatal'][-800:]}")
        if r.get('timeout'):
            harness_errors.append(f"{r['hid']}[{r['case_idx']}]: exploration timed out")

    # ---- external discharge of pending queries
    pend = []
    for r in results:
        has_feasible = any(pt.get('twin') == 'sat' for pt in r.get('paths', []))
        for p in r.get('pending', []):
            if p['kind'] == 'twin' and tier == 'quick' and has_feasible:
                continue    # reachability of this path stays 'unknown' (it is then not counted as a feasible state)
            pend.append((r, p))

    solve_deadline = time.time() + float(os.environ.get('SYMOPT_SOLVE_BUDGET_S', '300' if tier == 'quick' else '1500'))
    found_cex = set()

    def do_pending(rp):
        r, p = rp
        key = None
        if p['kind'] == 'ob':
            key = (r['hid'], r['case_idx'], r['paths'][p['path']]['obligations'][p['ob']]['name'])
            if key in found_cex:
                return dict(verdict='unknown', log=[('skipped: a counterexample for this obligation of this case is already known',)], time=0)
        if time.time() > solve_deadline:
            return dict(verdict='unknown', log=[('skipped: solver time budget of this run exhausted',)], time=0)
        d = discharge(p, qbudget, solvers)
        if key is not None and d['verdict'] == 'cex':
            found_cex.add(key)
        return d
    if pend:
        with ThreadPoolExecutor(max_workers=max(1, a.jobs // 3)) as ex:
            dres = list(ex.map(do_pending, pend))
        for (r, p), d in zip(pend, dres):
            path = r['paths'][p['path']]
            if p['kind'] == 'twin':
                path['twin'] = {'cex': 'sat', 'proved': 'unsat'}.get(d['verdict'], d['verdict'])
                if d['verdict'] == 'proved':
                    path['infeasible'] = True
                path['twin_model'] = d.get('model')
            else:
                o = path['obligations'][p['ob']]
                o['how'] = 'portfolio'
                o['time'] = d.get('time')
                o['solver'] = d.get('solver')
                o['rung'] = d.get('rung')
                o['log'] = d.get('log')
                if d['verdict'] == 'proved':
                    o['verdict'] = 'proved'
                elif d['verdict'] == 'cex':
                    o['verdict'] = 'cex'
                    kinds = p.get('input_names', {})
                    o['inputs'] = {n: d['model'][n] for n in kinds if n in d.get('model', {})}
                    o['funcs'] = {}
                elif d['verdict'] == 'disagree':
                    o['verdict'] = 'unknown'
                    harness_errors.append(f"{r['hid']}: solvers disagree on {o['name']}: {d['log']}")
                else:
                    o['verdict'] = 'unknown'
    t_discharge = round(time.time() - t_start, 1)
    # obligations that were concretely false but whose twin was pending
    for r in results:
        for path in r.get('paths', []):
            for o in path.get('obligations', []):
                if o['verdict'] == 'pending-twin':
                    if path.get('twin') == 'sat' and path.get('twin_model') is not None:
                        o['verdict'] = 'cex'
                        o['inputs'] = {n: path['twin_model'][n] for n in path.get('input_kinds', {}) if n in path['twin_model']}
                        o['funcs'] = {}
                    elif path.get('infeasible'):
                        o['verdict'] = 'vacuous'
                    else:
                        o['verdict'] = 'unknown'

    # ---- replay counterexample candidates on the real code (unpatched numpy)
    cands = []
    for r in results:
        for pi, path in enumerate(r.get('paths', [])):
            if path.get('infeasible'):
                continue
            for o in path.get('obligations', []):
                if o['verdict'] == 'cex':
                    cands.append((r, pi, path, o))
    known = load_known()
    violations = []
    known_hits = []
    unconfirmed = []
    if cands:
        # de-duplicate by (harness, case, obligation): replay at most 4 candidates each
        per = {}
        todo = []
        for c in cands:
            key = (c[0]['hid'], c[0]['case_idx'], c[3]['name'])
            per[key] = per.get(key, 0) + 1
            if per[key] <= 4:
                todo.append(c)
        scs = [dict(module=modname, property=prop, harness=r['hid'], case_idx=r['case_idx'], case=r['case'], tier=tier,
                    inputs=o.get('inputs', {}), funcs=o.get('funcs', {}), obligation=o['name'])
               for (r, pi, path, o) in todo]
        chunks = [scs[i::8] for i in range(8) if scs[i::8]]
        with ThreadPoolExecutor(max_workers=8) as ex:
            outs = list(ex.map(replay_batch, chunks))
        rr = [None] * len(scs)
        for ci, ch in enumerate(chunks):
            for j, out in enumerate(outs[ci]):
                rr[ci + 8 * j] = out
        os.makedirs(os.path.join(WORK, 'replays', prop), exist_ok=True)
        seen_v = set()
        for (r, pi, path, o), sc, res in zip(todo, scs, rr):
            o['replay'] = dict(status=res.get('status'), violated=res.get('violated'))
            viol = res.get('violated') or []
            if res.get('status') in ('ok', 'exception') and viol:
                o['verdict'] = 'violated'
                for vname in viol:
                    key = (r['hid'], r['case_idx'], vname)
                    if key in seen_v:
                        continue
                    seen_v.add(key)
                    fn = os.path.join(WORK, 'replays', prop, f"{r['hid']}-{r['case_idx']}-{re.sub(r'[^A-Za-z0-9_.-]', '_', vname)}.json")
                    sc2 = dict(sc)
                    sc2['obligation'] = vname
                    sc2['observed'] = dict(status=res.get('status'), exception=res.get('exception'),
                                           detail=(res.get('detail') or '')[-600:], observations=res.get('observations'))
                    json.dump(sc2, open(fn, 'w'), indent=1)
                    k = match_known(known, prop, r['hid'], vname, r['case'])
                    (known_hits if k else violations).append(dict(harness=r['hid'], case=r['case'], obligation=vname,
                                                                 replay=fn, known=k, inputs=sc['inputs'],
                                                                 detail=(res.get('detail') or '')[-300:]))
            else:
                o['verdict'] = 'unconfirmed_cex'
                if o['name'] == 'no_exception' and res.get('status') == 'ok':
                    # the symbolic run raised inside library code but the real code does not: the engine could not execute
                    # this path (an operation the facade does not model) - nothing on it was checked
                    harness_errors.append(f"{r['hid']}[{r['case_idx']}]: symbolic execution raised where the real code does not "
                                          f"({(o.get('info') or {}).get('exc')}: {(o.get('info') or {}).get('msg')}); path not checked")
                unconfirmed.append(dict(harness=r['hid'], case=r['case'], obligation=o['name'], inputs=o.get('inputs'), funcs=o.get('funcs'), path=path['trace'],
                                        replay_status=res.get('status'), detail=(res.get('detail') or '')[-300:]))
        for c in cands:
            if c not in todo and c[3]['verdict'] == 'cex':
                c[3]['verdict'] = 'cex_duplicate'

    t_replay = round(time.time() - t_start, 1)
    # ---- encoding validation: symbolic observations under a model vs the real code on the same inputs
    vscs = []
    vmeta = []
    nval = 3 if tier == 'quick' else 8
    for r in results:
        k = 0
        for path in r.get('paths', []):
            v = path.get('validation')
            if v and not _float_robust(v.get('funcs', {})):
                v = None    # the model separates function arguments by less than float resolution: not replayable in floats
            if v and k < nval:
                k += 1
                vscs.append(dict(module=modname, harness=r['hid'], case_idx=r['case_idx'], case=r['case'], tier=tier,
                                 inputs=v['inputs'], funcs=v.get('funcs', {})))
                vmeta.append((r, path, v))
    validated = 0
    val_mismatch = []
    val_fragile = []   # mismatches of scenarios that involve uninterpreted functions: the solver's model of the functions may hinge on
    #                    differences below float resolution, so the concrete run can legitimately take another branch
    if vscs:
        chunks = [vscs[i::8] for i in range(8) if vscs[i::8]]
        with ThreadPoolExecutor(max_workers=8) as ex:
            outs = list(ex.map(replay_batch, chunks))
        rr = [None] * len(vscs)
        for ci, ch in enumerate(chunks):
            for j, out in enumerate(outs[ci]):
                rr[ci + 8 * j] = out
        for (r, path, v), res in zip(vmeta, rr):
            if res.get('status') != 'ok':
                if res.get('status') in ('exception', 'error'):
                    val_mismatch.append(dict(harness=r['hid'], case=r['case'], why='concrete run failed: ' + str(res.get('detail'))[-300:],
                                             inputs=v['inputs']))
                continue
            bad = []
            for nm, exp in v['expected'].items():
                got = res['observations'].get(nm)
                if got is None or exp is None:
                    bad.append((nm, exp, got))
                    continue
                try:
                    g = float(got)
                    e = float(exp)
                except (TypeError, ValueError):
                    continue
                if not (abs(g - e) <= 1e-6 + 1e-6 * max(abs(g), abs(e)) or (g != g and e != e)):
                    bad.append((nm, e, g))
            falsified = [n for n, ok in res['obligations'].items() if ok is False]
            if bad:
                fnv = os.path.join(WORK, 'replays', prop, f"valmismatch-{r['hid']}-{r['case_idx']}.json")
                os.makedirs(os.path.dirname(fnv), exist_ok=True)
                json.dump(dict(module=modname, property=prop, harness=r['hid'], case_idx=r['case_idx'], case=r['case'], tier=tier,
                               inputs=v['inputs'], funcs=v.get('funcs', {}), expected=v['expected'], got=res['observations']),
                          open(fnv, 'w'), indent=1)
                (val_fragile if v.get('funcs') else val_mismatch).append(
                    dict(harness=r['hid'], case=r['case'], why='observation mismatch', diffs=bad[:5], inputs=v['inputs'], trace=path['trace']))
            else:
                validated += 1
            if falsified:
                # real code violates an obligation on concrete inputs of a feasible path: a genuine violation
                for vname in falsified:
                    fn = os.path.join(WORK, 'replays', prop, f"{r['hid']}-{r['case_idx']}-{re.sub(r'[^A-Za-z0-9_.-]', '_', vname)}-val.json")
                    os.makedirs(os.path.dirname(fn), exist_ok=True)
                    json.dump(dict(module=modname, property=prop, harness=r['hid'], case_idx=r['case_idx'], case=r['case'],
                                   tier=tier, inputs=v['inputs'], funcs=v.get('funcs', {}), obligation=vname), open(fn, 'w'), indent=1)
                    k = match_known(known, prop, r['hid'], vname, r['case'])
                    if not any(x['harness'] == r['hid'] and x['obligation'] == vname and x['case'] == r['case']
                               for x in violations + known_hits):
                        (known_hits if k else violations).append(dict(harness=r['hid'], case=r['case'], obligation=vname,
                                                                     replay=fn, known=k, inputs=v['inputs'], detail='found by encoding validation run'))
    for vm in val_mismatch:
        harness_errors.append('encoding validation: ' + json.dumps(vm, default=repr)[:600])

    # ---- aggregate
    n_paths = n_feasible = n_infeasible = n_cut = n_exc = 0
    cut_reasons = {}
    unsupported = []
    counts = {}
    solver_wins = {}
    tot_solver = 0.0
    max_solver = 0.0
    inconclusive = []
    samples = []
    leaks = []
    for r in results:
        for path in r.get('paths', []):
            n_paths += 1
            if path.get('error'):
                leaks.append(f"{r['hid']}: {path['error'][-600:]}")
            if path.get('infeasible'):
                n_infeasible += 1
                continue
            if path.get('twin') == 'sat':
                n_feasible += 1
            if path['status'].startswith('end:'):
                n_cut += 1
                kind_ = path['status'].split(':', 2)
                cut_reasons[f"{r['hid']}: {':'.join(kind_[1:])[:160]}"] = cut_reasons.get(f"{r['hid']}: {':'.join(kind_[1:])[:160]}", 0) + 1
                if len(kind_) > 1 and kind_[1] == 'unsupported':
                    unsupported.append(f"{r['hid']}[{r['case_idx']}]: {':'.join(kind_[2:])[:200]}")
            if path['status'].startswith('exception'):
                n_exc += 1
            for o in path.get('obligations', []):
                counts[o['verdict']] = counts.get(o['verdict'], 0) + 1
                if o.get('solver') or o.get('how'):
                    w = o.get('solver') or o.get('how')
                    solver_wins[w] = solver_wins.get(w, 0) + 1
                t = o.get('time') or 0
                tot_solver += t
                max_solver = max(max_solver, t)
                if o['verdict'] in ('unknown', 'pending'):
                    inconclusive.append(f"{r['hid']}[{r['case_idx']}] path {path['trace'] or '-'} : {o['name']}")
                    if a.verbose:
                        print(f"  inconclusive {r['hid']}[{r['case_idx']}] {o['name']}: verdict={o['verdict']} how={o.get('how')} log={o.get('log')} npending={len(r.get('pending', []))} truncated={r.get('truncated')} keys={list(r.keys())}")
                if len(samples) < 12 and o['verdict'] == 'proved' and o.get('formula') and o.get('how') != 'concrete':
                    samples.append(dict(harness=r['hid'], case=r['case'], path=path['trace'], obligation=o['name'],
                                        formula=o['formula'][:300], verdict=o['verdict'], by=o.get('solver') or o.get('how'),
                                        time_s=o.get('time')))
    for lk in leaks:
        harness_errors.append('leak: ' + lk)
    total_ob = sum(counts.values())
    wall = round(time.time() - t_start, 1)

    # ---- report
    print(f'== {prop} tier={tier} seed={seed}: {len(tasks)} harness cases, {n_paths} paths '
          f'({n_feasible} feasible, {n_infeasible} infeasible, {n_cut} cut, {n_exc} raising), '
          f'{total_ob} obligations: {counts}; validated {validated}; wall {wall}s '
          f'(explore {t_explore}, +solve {t_discharge}, +replay {t_replay})')
    per_h = {}
    for r in results:
        d = per_h.setdefault(r['hid'], dict(cases=0, paths=0, obligations=0, proved=0, unknown=0, wall=0.0))
        d['cases'] += 1
        d['wall'] += r.get('wall') or 0
        for path in r.get('paths', []):
            if path.get('infeasible'):
                continue
            d['paths'] += 1
            for o in path.get('obligations', []):
                d['obligations'] += 1
                if o['verdict'] == 'proved':
                    d['proved'] += 1
                if o['verdict'] in ('unknown', 'pending'):
                    d['unknown'] += 1
    for hid, d in per_h.items():
        print(f"   {hid}: cases={d['cases']} paths={d['paths']} obligations={d['obligations']} proved={d['proved']} "
              f"inconclusive={d['unknown']} explore_wall={d['wall']:.1f}s")
    if unconfirmed:
        os.makedirs(os.path.join(WORK, 'replays', prop), exist_ok=True)
        json.dump(unconfirmed, open(os.path.join(WORK, 'replays', prop, 'unconfirmed.json'), 'w'), indent=1, default=repr)
    for u in unconfirmed[:10]:
        print(f"   unconfirmed-cex (solver model did not reproduce on the real code): {u['harness']} {u['case']} {u['obligation']} [{u['replay_status']}]")
    if cut_reasons:
        print('   paths ended early: ' + '; '.join(f'{k} x{v}' for k, v in sorted(cut_reasons.items())[:8]))
    for u_ in sorted(set(unsupported)):
        # an operation the facade does not model: the path was not executed to its end, nothing after that point was checked
        harness_errors.append('unsupported operation in the symbolic run (path not checked): ' + u_)
    trunc = [f"{r['hid']}[{r['case_idx']}] ({len(r.get('paths', []))} paths)" for r in results if r.get('truncated')]
    if trunc:
        print(f'   TRUNCATED exploration (path cap or time budget reached; the unexplored remainder is NOT covered): ' + '; '.join(trunc[:8]))
    if inconclusive:
        print(f'   INCONCLUSIVE ({len(inconclusive)}): ' + '; '.join(inconclusive[:6]) + (' ...' if len(inconclusive) > 6 else ''))
    for k in known_hits:
        print(f"KNOWN-FINDING: property={prop} {k['known'].get('id', '')} {k['known'].get('what', '')} "
              f"[{k['harness']} {k['obligation']}]")
    for v in violations:
        print(f"VIOLATION property={prop} replay={v['replay']}")
        print(f"   harness={v['harness']} case={v['case']} obligation={v['obligation']} inputs={json.dumps(v['inputs'])[:300]}")
        if v.get('detail'):
            print('   ' + v['detail'].strip().replace('\n', '\n   ')[-300:])
    for he in harness_errors:
        print('HARNESS-ERROR: ' + he)

    # ---- evidence
    if not a.no_evidence and not a.only:
        funcs = {}
        for hid, H in REGISTRY.items():
            if H['prop'] == prop:
                for f in H['funcs']:
                    funcs[f] = src_hash(f)
        bounds = {hid: H['bounds'] for hid, H in REGISTRY.items() if H['prop'] == prop and tier in H['tiers']}
        stubs = sorted({s for hid, H in REGISTRY.items() if H['prop'] == prop for s in H['stubs']})
        ev = dict(
            property_id=prop, tier=tier, seed=seed, level='model_checking',
            coverage=dict(
                states=max(n_feasible, 0), transitions=counts.get('proved', 0) + counts.get('violated', 0) + counts.get('unconfirmed_cex', 0),
                traces_validated_against_impl=validated + len(cands),
                samples=samples or [dict(note='no solver-discharged sample (all obligations concrete)')],
                explanation='states = feasible symbolic paths of the real optiland code (reachability twin sat); '
                            'transitions = obligation queries decided by a solver (unsat = holds for all values in the bound); '
                            'traces_validated = encoding-validation runs + counterexample replays on the unpatched code',
                harness_cases=len(tasks), paths_total=n_paths, paths_infeasible=n_infeasible, paths_cut=n_cut,
                paths_raising=n_exc, obligations=total_ob, verdicts=counts, inconclusive=inconclusive[:200],
                unconfirmed_cex=unconfirmed[:50], validation_not_comparable=len(val_fragile), solver_wins=solver_wins, solver_time_total_s=round(tot_solver, 2),
                solver_time_max_s=round(max_solver, 2), functions_encoded=funcs, bounds=bounds, stubs=stubs,
                per_harness=per_h, known_findings_hit=[k['known'].get('id') for k in known_hits],
                query_budget_s=qbudget, harness_errors=harness_errors[:20],
                truncated_explorations=trunc, paths_ended_early=cut_reasons, decided_without_solver=sum(1 for r in results for pt in r.get('paths', []) for o in pt.get('obligations', []) if o.get('how') in ('simplify', 'concrete')),
            ),
            assumptions=[
                'floats are modelled as exact reals with IEEE special values (inf/nan, division by zero); rounding, overflow and cancellation are outside the claim',
                'sqrt/sin/cos/exp are axiomatised (sound, incomplete); every sat answer is replayed on the real code before it is reported',
                'bounds per harness as listed under coverage.bounds; nothing is claimed outside them',
            ] + [f'stub: {s}' for s in stubs],
            wall_s=wall, violations=len(violations),
        )
        os.makedirs(os.path.join(ROOT, 'evidence'), exist_ok=True)
        json.dump(ev, open(os.path.join(ROOT, 'evidence', f'{prop}.json'), 'w'), indent=1, default=repr)
    if violations:
        return 1
    if harness_errors:
        return 2
    return 0


if __name__ == '__main__':
    sys.exit(main())
