"""Solver portfolio: fresh, non-incremental solver processes per query (z3 4.8.12, z3 5.1,
cvc5 1.0.3 binary, cvc5 1.4 python wheel); first definitive answer wins.  Model parsing for
counterexamples."""
import os
import re
import subprocess
import sys
import tempfile
import time
from fractions import Fraction

import z3

HERE = os.path.dirname(os.path.abspath(__file__))
WORK = os.environ.get('SYMOPT_WORK') or os.path.join(os.path.dirname(HERE), 'work')

SOLVERS = ('z3', 'z3-new', 'cvc5', 'cvc5py')


def _which(x):
    for d in os.environ.get('PATH', '').split(':'):
        p = os.path.join(d, x)
        if os.access(p, os.X_OK):
            return p
    return None


def smt2_text(assertions, logic='ALL'):
    s = z3.Solver()
    s.add(assertions)
    body = s.sexpr()  # declarations + assertions
    return f'(set-logic {logic})\n{body}\n(check-sat)\n'


def _cmd(solver, fn, timeout, model):
    if solver == 'z3':
        c = ['/usr/bin/z3', f'-T:{int(timeout)}']
        if model:
            c += ['dump_models=true', 'pp.decimal=true', 'pp.decimal_precision=18']
        return c + [fn]
    if solver == 'z3-new':
        c = [_which('z3-new') or 'z3-new', f'-T:{int(timeout)}']
        if model:
            c += ['dump_models=true', 'pp.decimal=true', 'pp.decimal_precision=18']
        return c + [fn]
    if solver == 'cvc5':
        c = ['/usr/bin/cvc5', f'--tlimit={int(timeout * 1000)}']
        if model:
            c += ['--dump-models', '--produce-models']
        return c + [fn]
    if solver == 'cvc5py':
        return [sys.executable, os.path.join(HERE, 'cvc5run.py'), fn, str(int(timeout * 1000)), '1' if model else '0']
    raise ValueError(solver)


def run_portfolio(text, timeout=30, solvers=SOLVERS, model=False, all_finish=False):
    """returns dict(verdict=sat|unsat|unknown, solver, time, model_text, answers={solver: verdict})"""
    os.makedirs(WORK, exist_ok=True)
    fd, fn = tempfile.mkstemp(suffix='.smt2', dir=WORK)
    with os.fdopen(fd, 'w') as f:
        f.write(text)
    procs = {}
    t0 = time.time()
    for s in solvers:
        try:
            procs[s] = subprocess.Popen(_cmd(s, fn, timeout, model), stdout=subprocess.PIPE,
                                        stderr=subprocess.STDOUT, text=True)
        except OSError:
            pass
    res = None
    answers = {}
    while procs and time.time() - t0 < timeout + 5:
        for s, p in list(procs.items()):
            if p.poll() is not None:
                out = p.stdout.read()
                del procs[s]
                lines = [l.strip() for l in out.strip().split('\n') if l.strip()]
                first = lines[0] if lines else ''
                err = any(l.startswith('(error') for l in lines[:1]) or \
                    (first in ('sat', 'unsat') and any(l.startswith('(error') for l in lines[1:3]) and not model)
                if first in ('sat', 'unsat') and not err:
                    answers[s] = first
                    if res is None:
                        res = dict(verdict=first, solver=s, time=round(time.time() - t0, 3),
                                   model_text=out if first == 'sat' else None)
                else:
                    answers[s] = 'unknown'
        if res and not all_finish:
            break
        time.sleep(0.01)
    for p in procs.values():
        try:
            p.kill()
            p.wait(timeout=1)
        except Exception:
            pass
    try:
        os.unlink(fn)
    except OSError:
        pass
    if res is None:
        res = dict(verdict='unknown', solver=None, time=round(time.time() - t0, 3), model_text=None)
    res['answers'] = answers
    vs = set(v for v in answers.values() if v in ('sat', 'unsat'))
    res['disagree'] = len(vs) > 1
    return res


# ------------------------------------------------------------------------- model parsing
_TOK = re.compile(r'\(|\)|[^\s()]+')


def _parse_sexprs(text):
    toks = _TOK.findall(text)
    pos = 0

    def rd():
        nonlocal pos
        t = toks[pos]
        pos += 1
        if t == '(':
            lst = []
            while toks[pos] != ')':
                lst.append(rd())
            pos += 1
            return lst
        return t
    out = []
    while pos < len(toks):
        if toks[pos] == ')':
            pos += 1
            continue
        out.append(rd())
    return out


def _num(tok):
    t = tok.rstrip('?')
    try:
        if '/' in t:
            return float(Fraction(t))
        return float(t)
    except ValueError:
        return None


def _eval(e, env):
    if isinstance(e, str):
        if e in env:
            v = env[e]
            return v() if callable(v) and getattr(v, '_nullary', False) else v
        if e == 'true':
            return True
        if e == 'false':
            return False
        n = _num(e)
        if n is None:
            raise KeyError(e)
        return n
    op = e[0]
    if isinstance(op, list):
        if op and op[0] == '_' and len(op) >= 2 and op[1] == 'as-array':
            return env[op[2]]
        raise ValueError(f'cannot evaluate {e}')
    if op == 'let':
        env2 = dict(env)
        for nm, ex in e[1]:
            env2[nm] = _eval(ex, env)
        return _eval(e[2], env2)
    if op == 'ite':
        return _eval(e[2], env) if _eval(e[1], env) else _eval(e[3], env)
    if op == 'root-obj':
        # (root-obj poly k): approximate by numeric root finding
        return _root_obj(e, env)
    a = [_eval(x, env) for x in e[1:]]
    if op == '-':
        return -a[0] if len(a) == 1 else a[0] - sum(a[1:])
    if op == '+':
        return sum(a)
    if op == '*':
        r = 1.0
        for x in a:
            r *= x
        return r
    if op == '/':
        return a[0] / a[1] if a[1] != 0 else 0.0
    if op in ('^', '**'):
        return a[0] ** a[1]
    if op == 'to_real':
        return float(a[0])
    if op == 'to_int':
        import math
        return float(math.floor(a[0]))
    if op == 'div':
        import math
        return float(math.floor(a[0] / a[1])) if a[1] > 0 else float(-math.floor(a[0] / -a[1])) if a[1] < 0 else 0.0
    if op == 'mod':
        return float(a[0] - abs(a[1]) * (a[0] // abs(a[1]))) if a[1] != 0 else a[0]
    if op == 'abs':
        return abs(a[0])
    if op == '=':
        return all(abs(x - a[0]) <= 1e-12 * (1 + abs(a[0])) if not isinstance(x, bool) else x == a[0] for x in a[1:])
    if op == 'distinct':
        return len(set(a)) == len(a)
    if op == '<=':
        return a[0] <= a[1]
    if op == '<':
        return a[0] < a[1]
    if op == '>=':
        return a[0] >= a[1]
    if op == '>':
        return a[0] > a[1]
    if op == 'and':
        return all(a)
    if op == 'or':
        return any(a)
    if op == 'not':
        return not a[0]
    if op == '=>':
        return (not all(a[:-1])) or a[-1]
    if op in env and callable(env[op]):
        return env[op](*a)
    raise ValueError(f'cannot evaluate {op}')


def _root_obj(e, env):
    import numpy as np
    poly, k = e[1], int(e[2])
    # collect coefficients by evaluating at sample points (degree <= 8)
    xs = np.linspace(-3, 3, 9)
    ys = []
    for x in xs:
        env2 = dict(env)
        env2['x'] = float(x)
        ys.append(_eval(poly, env2))
    coef = np.polyfit(xs, ys, 8)
    roots = sorted(r.real for r in np.roots(coef) if abs(r.imag) < 1e-7)
    # de-duplicate
    uniq = []
    for r in roots:
        if not uniq or abs(r - uniq[-1]) > 1e-7:
            uniq.append(r)
    return float(uniq[k - 1]) if 0 < k <= len(uniq) else float('nan')


def parse_model(text):
    """-> (values: {name: float|bool}, funcs: {name: python callable}) from solver output"""
    values = {}
    funcs = {}
    try:
        sx = _parse_sexprs(text[text.index('('):]) if '(' in text else []
    except Exception:
        return values, funcs
    defs = []

    def collect(lst):
        for e in lst:
            if isinstance(e, list) and e and e[0] == 'define-fun':
                defs.append(e)
            elif isinstance(e, list) and e and (e[0] == 'model' or isinstance(e[0], list)):
                collect(e if e[0] != 'model' else e[1:])
    collect(sx)
    env = {}
    # functions first (may be referenced), two passes for robustness
    for _ in range(2):
        for d in defs:
            name, params, sort, body = d[1], d[2], d[3], d[4]
            name = name.strip('|')
            if params:
                pn = [p[0] for p in params]

                def mk(pn=pn, body=body):
                    def f(*a):
                        env2 = dict(env)
                        env2.update(zip(pn, a))
                        return _eval(body, env2)
                    return f
                env[name] = mk()
                funcs[name] = env[name]
            else:
                try:
                    v = _eval(body, env)
                    env[name] = v
                    values[name] = v
                except Exception:
                    pass
    return values, funcs


if __name__ == '__main__':
    x, y = z3.Reals('x y')
    t = smt2_text([x * x == 2, x > 0, y == x / 3])
    r = run_portfolio(t, 10, model=True, all_finish=True)
    print(r['verdict'], r['solver'], r['time'], r['answers'])
    print(parse_model(r['model_text'])[0])
