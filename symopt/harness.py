"""Harness context: one harness body, two modes.

mode 'sym'  : inputs are symbolic SVs, the numpy façade is installed, obligations become z3
              formulas discharged by the solvers.
mode 'conc' : inputs are python floats taken from a solver model, optiland runs on the real
              numpy, obligations are evaluated in floating point (replay / encoding validation).
"""
import math

import numpy as np
import z3

from . import sv as _sv
from .sv import SV, SymBool, PathEnd, rv
from .ratnf import eq_nf

REGISTRY = {}


class ReplayInvalid(Exception):
    """concrete inputs do not satisfy the harness assumptions"""


def harness(prop, name, cases=None, funcs=(), doc='', bounds='', stubs=(), tiers=('quick', 'thorough'),
            exceptions='violation', max_paths=None, timeout=None):
    """register a harness.  cases: callable(tier)->list of dict (structural enumeration)."""
    def deco(fn):
        hid = f'{prop}.{name}'
        REGISTRY[hid] = dict(id=hid, prop=prop, name=name, fn=fn, cases=cases or (lambda tier: [{}]),
                             funcs=tuple(funcs), doc=doc or (fn.__doc__ or '').strip(), bounds=bounds,
                             stubs=tuple(stubs), tiers=tiers, exceptions=exceptions, max_paths=max_paths,
                             timeout=timeout)
        return fn
    return deco


def _is_sym(x):
    return isinstance(x, (SV, SymBool)) or type(x).__name__ in ('SC', 'Jet')


class Ctx:
    REL_TOL = 1e-7
    ABS_TOL = 1e-9

    def __init__(self, mode, tier='quick', case=None, values=None, funcs=None, seed=0):
        self.mode = mode
        self.sym = mode == 'sym'
        self.tier = tier
        self.case = case or {}
        self.values = values or {}
        self.funcs = funcs or {}
        self.seed = seed
        self.inputs = {}        # name -> dict(kind, term, lo, hi, ...)
        self.obligations = []   # (name, cond, info)
        self.observations = []  # (name, value)
        self.notes = []
        self._names = {}
        self._cache = {}

    # ------------------------------------------------------------------ inputs
    def _default(self, lo, hi, ne):
        for c in (1.0, 0.5, 2.0, -1.0, 0.25, 3.0):
            if (lo is None or c > lo) and (hi is None or c < hi) and (ne is None or c != ne):
                return c
        if lo is not None and hi is not None:
            return (lo + hi) / 2
        return (lo + 1.0) if lo is not None else (hi - 1.0)

    def real(self, name, lo=None, hi=None, ne=None, lo_strict=False, hi_strict=False):
        """declare a real input with optional bounds"""
        if name in self.inputs:
            raise ValueError(f'duplicate input {name}')
        info = dict(kind='real', lo=lo, hi=hi, ne=ne)
        self.inputs[name] = info
        if self.sym:
            t = z3.Real(name)
            info['term'] = t
            E = _sv.E
            if lo is not None:
                E.assume(t > rv(lo) if lo_strict else t >= rv(lo))
            if hi is not None:
                E.assume(t < rv(hi) if hi_strict else t <= rv(hi))
            if ne is not None:
                E.assume(t != rv(ne))
            if lo is not None and (lo > 0 or (lo == 0 and (lo_strict or ne == 0))):
                E.know_sign(t, 1)
            if hi is not None and (hi < 0 or (hi == 0 and (hi_strict or ne == 0))):
                E.know_sign(t, -1)
            return SV(t=t)
        if name in self.values:
            v = float(self.values[name])
        elif '__random__' in self.values:
            import random
            rng = self._cache.setdefault('rng', random.Random(self.values['__random__']))
            a = -3.0 if lo is None else lo
            b = (a + 6.0 if lo is not None else 3.0) if hi is None else hi
            if lo is None and hi is not None:
                a = hi - 6.0
            v = round(rng.uniform(a, b), 3)
            while (ne is not None and v == ne) or (lo_strict and v <= a) or (hi_strict and v >= b):
                v = round(rng.uniform(a, b), 3)
        else:
            v = self._default(lo, hi, ne)
        eps = 1e-9
        if (lo is not None and (v < lo - eps or (lo_strict and v <= lo))) or \
           (hi is not None and (v > hi + eps or (hi_strict and v >= hi))) or (ne is not None and v == ne):
            raise ReplayInvalid(f'{name}={v} outside declared range')
        info['value'] = v
        return np.float64(v)   # numpy flavour: x/0 -> inf, like the arrays in the library

    def pinned(self, name, value):
        """a symbol constrained to one value: keeps the arithmetic exact (a concrete float would be rounded by numpy
        at every step and break exact identities) while leaving nothing to explore"""
        if self.sym:
            t = z3.Real(name)
            self.inputs[name] = dict(kind='real', term=t, lo=value, hi=value, ne=None)
            _sv.E.assume(t == rv(value))
            if value > 0:
                _sv.E.know_sign(t, 1)
            elif value < 0:
                _sv.E.know_sign(t, -1)
            return SV(t=t)
        self.inputs[name] = dict(kind='real', value=float(value))
        return np.float64(value)

    def boolean(self, name):
        info = dict(kind='bool')
        self.inputs[name] = info
        if self.sym:
            t = z3.Bool(name)
            info['term'] = t
            return SymBool(t)
        if name not in self.values and '__random__' in self.values:
            import random
            rng = self._cache.setdefault('rng', random.Random(self.values['__random__']))
            v = rng.random() < 0.5
        else:
            v = bool(self.values.get(name, False))
        info['value'] = v
        return v

    def integer(self, name, lo, hi):
        info = dict(kind='int', lo=lo, hi=hi)
        self.inputs[name] = info
        if self.sym:
            t = z3.Int(name)
            info['term'] = t
            _sv.E.assume(z3.And(t >= lo, t <= hi))
            return SV(t=t)
        if name not in self.values and '__random__' in self.values:
            import random
            rng = self._cache.setdefault('rng', random.Random(self.values['__random__']))
            v = rng.randint(lo, hi)
        else:
            v = int(round(float(self.values.get(name, lo))))
        if not (lo <= v <= hi):
            raise ReplayInvalid(f'{name}={v} outside [{lo},{hi}]')
        info['value'] = v
        return v

    def uf(self, name, *args):
        """uninterpreted real function (tracer / operand stubs)"""
        if self.sym:
            f = self._cache.get(('uf', name))
            if f is None:
                f = z3.Function(name, *([z3.RealSort()] * (len(args) + 1)))
                self._cache[('uf', name)] = f
            return SV(t=f(*[_sv.svterm(a) for a in args]))
        fn = self.funcs.get(name)
        xs = [float(self.val(a)) for a in args]
        if fn is not None:
            try:
                return float(fn(*xs))
            except Exception:
                pass
        h = sum((i + 1.37) * x for i, x in enumerate(xs)) + (sum(map(ord, name)) % 17) * 0.731
        return math.sin(h) * 3.1 + 0.37 * math.cos(2.3 * h) + 0.11 * h

    # ------------------------------------------------------------------ logic
    def assume(self, cond):
        if isinstance(cond, SymBool):
            _sv.E.assume(cond.t)
        elif not cond:
            if self.sym:
                raise PathEnd('assume', 'concretely false')
            raise ReplayInvalid('assumption false')

    @staticmethod
    def _b(c):
        return c.t if isinstance(c, SymBool) else z3.BoolVal(bool(c))

    def And(self, *cs):
        cs = [c for c in cs]
        if any(isinstance(c, SymBool) for c in cs):
            return SymBool(z3.And(*[self._b(c) for c in cs]))
        return all(bool(c) for c in cs)

    def Or(self, *cs):
        if any(isinstance(c, SymBool) for c in cs):
            return SymBool(z3.Or(*[self._b(c) for c in cs]))
        return any(bool(c) for c in cs)

    def Not(self, c):
        return SymBool(z3.Not(c.t)) if isinstance(c, SymBool) else (not c)

    def Implies(self, a, b):
        if isinstance(a, SymBool) or isinstance(b, SymBool):
            return SymBool(z3.Implies(self._b(a), self._b(b)))
        return (not a) or bool(b)

    def If(self, c, a, b):
        """value-level if-then-else without forking"""
        if isinstance(c, SymBool):
            return SV(t=z3.If(c.t, _sv.svterm(a), _sv.svterm(b)))
        return a if c else b

    # ------------------------------------------------------------------ values
    def val(self, x):
        """scalar of a 1-element array / 0-d array / scalar"""
        if isinstance(x, np.ndarray):
            if x.size != 1:
                raise ValueError(f'val() of array with {x.size} elements')
            x = x.reshape(-1)[0]
        if self.sym:
            if _is_sym(x):
                return x
            r = SV.of(x)
            return r if r is not None else x
        if isinstance(x, (float, np.integer)) and not isinstance(x, np.floating):
            return np.float64(x)
        return x

    def vals(self, x):
        return [self.val(v) for v in np.ravel(np.asarray(x, dtype=object))]

    def arr(self, *vals):
        if self.sym:
            from .facade import oarr
            return oarr(list(vals)).copy()
        return np.array([float(v) for v in vals], dtype=float)

    def const(self, x):
        """a numeric literal in the flavour of the mode (SV in sym mode)"""
        return SV(float(x)) if self.sym else np.float64(x)

    def finite(self, x):
        """concretely decidable finiteness of a computed value (symbolic terms are finite)"""
        x = self.val(x)
        if isinstance(x, SV):
            return x.finite()
        if type(x).__name__ == 'SC':
            return x.re.finite() and x.im.finite()
        if type(x).__name__ == 'Jet':
            return x.finite()
        try:
            return math.isfinite(x)
        except TypeError:
            return bool(np.isfinite(x))

    def isnan(self, x):
        x = self.val(x)
        if isinstance(x, SV):
            return (not x.sym) and math.isnan(x.c)
        return math.isnan(x)

    # math for oracles
    def sqrt(self, x):
        x = self.val(x)
        if isinstance(x, SV):
            return x.sqrt()
        return math.sqrt(x) if x >= 0 else float('nan')

    def sin(self, x):
        x = self.val(x)
        return x.sin() if isinstance(x, SV) else math.sin(x)

    def cos(self, x):
        x = self.val(x)
        return x.cos() if isinstance(x, SV) else math.cos(x)

    def tan(self, x):
        x = self.val(x)
        return x.tan() if isinstance(x, SV) else math.tan(x)

    def exp(self, x):
        x = self.val(x)
        return x.exp() if isinstance(x, SV) else math.exp(x)

    def abs(self, x):
        x = self.val(x)
        if isinstance(x, SV) and x.sym:
            return SV(t=z3.If(x.t >= 0, x.t, -x.t))
        return abs(x)

    def exp_arg(self, e):
        """argument of an exp() result (sym: the recorded argument term; conc: log)"""
        e = self.val(e)
        if isinstance(e, SV):
            if not e.sym:
                return SV(math.log(e.c)) if e.c > 0 else SV(float('-inf'))
            return _sv.E.exp_args.get(e.n.get_id()) if e.d is None else None
        return math.log(e) if e > 0 else float('-inf')

    # ------------------------------------------------------------------ obligations
    def eq(self, a, b, rel=None, abs_=None):
        """equality of two scalars: exact (rational normal form) in sym mode, tolerance in conc mode"""
        a = self.val(a)
        b = self.val(b)
        if self.sym:
            if type(a).__name__ == 'SC' or type(b).__name__ == 'SC':
                from .cplx import SC
                a, b = SC.of(a), SC.of(b)
                return self.And(self.eq(a.re, b.re), self.eq(a.im, b.im))
            a = SV.of(a)
            b = SV.of(b)
            if a is None or b is None:
                raise TypeError('eq() of non-scalars')
            if not a.sym and not b.sym:
                return self._ceq(a.c, b.c, rel, abs_)
            if not a.finite() or not b.finite():
                return False
            return a == b  # division-free (cross-multiplied) atom
        if isinstance(a, complex) or isinstance(b, complex):
            return self._ceq(complex(a).real, complex(b).real, rel, abs_) and \
                self._ceq(complex(a).imag, complex(b).imag, rel, abs_)
        return self._ceq(float(a), float(b), rel, abs_)

    def _ceq(self, a, b, rel=None, abs_=None):
        if math.isnan(a) or math.isnan(b):
            return math.isnan(a) and math.isnan(b)
        if math.isinf(a) or math.isinf(b):
            return a == b
        rel = self.REL_TOL if rel is None else rel
        abs_ = self.ABS_TOL if abs_ is None else abs_
        return abs(a - b) <= abs_ + rel * max(abs(a), abs(b))

    def approx(self, a, b, tol=1e-9):
        """|a - b| <= tol, as a solver obligation (used where the code itself carries rounded constants such as
        cos(pi/4): an exact identity cannot hold, the claim is then 'to within tol' over the reals)"""
        a = self.val(a)
        b = self.val(b)
        if self.sym:
            d = a - b
            return self.And(d <= tol, -d <= tol)
        return abs(float(a) - float(b)) <= max(tol, self.ABS_TOL) + self.REL_TOL * max(abs(float(a)), abs(float(b)))

    def eq_all(self, xs, ys, **k):
        xs = self.vals(xs)
        ys = self.vals(ys)
        if len(xs) != len(ys):
            return False
        return self.And(*[self.eq(x, y, **k) for x, y in zip(xs, ys)])

    def le(self, a, b, slack=None):
        """a <= b (conc mode: with tolerance)"""
        a = self.val(a)
        b = self.val(b)
        if self.sym:
            return a <= b
        slack = self.ABS_TOL + self.REL_TOL * max(abs(a), abs(b)) if slack is None else slack
        return a <= b + slack

    def same(self, a, b):
        """identity of two computed values as *terms* / exact floats (frame conditions)"""
        return self.eq(a, b, rel=1e-12, abs_=1e-12)

    def _uniq(self, name):
        k = self._names.get(name, 0)
        self._names[name] = k + 1
        return name if k == 0 else f'{name}#{k}'

    def oblige(self, name, cond, **info):
        self.obligations.append((self._uniq(name), cond, info))

    def observe(self, name, value):
        self.observations.append((self._uniq('obs:' + name)[4:], self.val(value)))

    def note(self, msg):
        if msg not in self.notes:
            self.notes.append(msg)

    def raises(self, exc_types, fn, *a, **k):
        """True iff fn(*a, **k) raises one of exc_types (other exceptions propagate)"""
        try:
            fn(*a, **k)
        except exc_types:
            return True
        return False
