"""Rational normal form: rewrite a z3 real term into (numerator, denominator) polynomial
terms without division, so that equalities become polynomial identities (cross-multiplied).
Measured: paraxial-vs-ABCD 4 surfaces >60 s with z3 division, 0.02 s in normal form."""
import z3

ONE = z3.RealVal(1)


def numden(e, cache=None):
    if cache is None:
        cache = {}
    k = e.get_id()
    if k in cache:
        return cache[k][:2]
    if z3.is_rational_value(e) or z3.is_algebraic_value(e):
        r = (e, ONE)
    elif z3.is_int_value(e):
        r = (z3.ToReal(e), ONE)
    elif z3.is_const(e) or (z3.is_app(e) and e.decl().kind() == z3.Z3_OP_UNINTERPRETED):
        r = (z3.ToReal(e) if e.sort().kind() == z3.Z3_INT_SORT else e, ONE)
    else:
        kind = e.decl().kind()
        if kind == z3.Z3_OP_ITE:
            c, a, b = e.children()
            (n1, d1), (n2, d2) = numden(a, cache), numden(b, cache)
            r = (z3.If(c, n1 * d2, n2 * d1), d1 * d2) if not d1.eq(d2) else (z3.If(c, n1, n2), d1)
        else:
            ch = [numden(c, cache) for c in e.children()]
            if kind == z3.Z3_OP_ADD:
                n, d = ch[0]
                for (n2, d2) in ch[1:]:
                    if d.eq(d2):
                        n = n + n2
                    elif d2.eq(ONE):
                        n = n + n2 * d
                    elif d.eq(ONE):
                        n, d = n * d2 + n2, d2
                    else:
                        n, d = n * d2 + n2 * d, d * d2
                r = (n, d)
            elif kind == z3.Z3_OP_SUB:
                n, d = ch[0]
                for (n2, d2) in ch[1:]:
                    if d.eq(d2):
                        n = n - n2
                    elif d2.eq(ONE):
                        n = n - n2 * d
                    elif d.eq(ONE):
                        n, d = n * d2 - n2, d2
                    else:
                        n, d = n * d2 - n2 * d, d * d2
                r = (n, d)
            elif kind == z3.Z3_OP_UMINUS:
                r = (-ch[0][0], ch[0][1])
            elif kind == z3.Z3_OP_MUL:
                n, d = ch[0]
                for (n2, d2) in ch[1:]:
                    n = n * n2
                    d = d if d2.eq(ONE) else (d2 if d.eq(ONE) else d * d2)
                r = (n, d)
            elif kind == z3.Z3_OP_DIV:
                (n1, d1), (n2, d2) = ch
                r = (n1 if d2.eq(ONE) else n1 * d2, n2 if d1.eq(ONE) else d1 * n2)
            elif kind == z3.Z3_OP_POWER:
                (n1, d1) = ch[0]
                ex = e.children()[1]
                p = int(ex.as_long()) if z3.is_int_value(ex) else int(ex.as_fraction())
                n = ONE
                d = ONE
                for _ in range(abs(p)):
                    n = n * n1
                    d = d * d1
                r = (n, d) if p >= 0 else (d, n)
            elif kind == z3.Z3_OP_TO_REAL:
                r = (e, ONE)
            else:
                raise NotImplementedError(str(e.decl()))
    r = (z3.simplify(r[0]), z3.simplify(r[1]))
    cache[k] = (r[0], r[1], e)
    return r


def eq_nf(lhs, rhs, cache=None):
    """cross-multiplied equality lhs == rhs (denominators assumed non-zero: the engine forks on
    every division)"""
    c = {} if cache is None else cache
    n1, d1 = numden(lhs, c)
    n2, d2 = numden(rhs, c)
    if d1.eq(d2):
        return n1 == n2
    return n1 * d2 == n2 * d1


def has_div(e, seen=None):
    if seen is None:
        seen = set()
    k = e.get_id()
    if k in seen:
        return False
    seen.add(k)
    if z3.is_app(e) and e.decl().kind() == z3.Z3_OP_DIV:
        return True
    return any(has_div(c, seen) for c in e.children())
