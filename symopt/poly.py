"""Exact multivariate polynomial arithmetic over Q for the engine's radical simplification: sqrt(p) of a z3 term p that is a perfect
square polynomial is replaced by |q| (q^2 == p verified exactly), so that closed-form configurations whose discriminants are perfect
squares stay inside rational arithmetic instead of creating an algebraic atom."""
import math
from fractions import Fraction

import z3

MAX_TERMS = 6000


class TooBig(Exception):
    pass


class Poly:
    """dict: monomial (tuple of (atom id, exponent), sorted by id) -> Fraction"""
    __slots__ = ('c',)

    def __init__(self, c=None):
        self.c = c or {}

    @staticmethod
    def const(v):
        v = Fraction(v)
        return Poly({(): v} if v != 0 else {})

    @staticmethod
    def var(i):
        return Poly({((i, 1),): Fraction(1)})

    def add(self, o, sign=1):
        r = dict(self.c)
        for m, v in o.c.items():
            nv = r.get(m, 0) + sign * v
            if nv == 0:
                r.pop(m, None)
            else:
                r[m] = nv
        return Poly(r)

    def mul(self, o):
        if len(self.c) * len(o.c) > 40 * MAX_TERMS:
            raise TooBig()
        r = {}
        for m1, v1 in self.c.items():
            for m2, v2 in o.c.items():
                m = _mmul(m1, m2)
                nv = r.get(m, 0) + v1 * v2
                if nv == 0:
                    r.pop(m, None)
                else:
                    r[m] = nv
        if len(r) > MAX_TERMS:
            raise TooBig()
        return Poly(r)

    def scale(self, k):
        return Poly({m: v * k for m, v in self.c.items()}) if k != 0 else Poly()

    def is_zero(self):
        return not self.c


def _mmul(m1, m2):
    if not m1:
        return m2
    if not m2:
        return m1
    d = dict(m1)
    for i, e in m2:
        d[i] = d.get(i, 0) + e
    return tuple(sorted(d.items()))


def _mdiv(m1, m2):
    d = dict(m1)
    for i, e in m2:
        ne = d.get(i, 0) - e
        if ne < 0:
            return None
        if ne == 0:
            d.pop(i, None)
        else:
            d[i] = ne
    return tuple(sorted(d.items()))


def _make_key(p):
    """graded lexicographic order on exponent vectors (compatible with multiplication)"""
    vs = sorted({i for m in p.c for i, _ in m})

    def key(m):
        d = dict(m)
        return (sum(d.values()), tuple(d.get(i, 0) for i in vs))
    return key


def _lead(p, order):
    return max(p.c, key=order)


def from_term(t, atoms, depth=0, memo=None):
    """z3 real/int term -> Poly; non-polynomial subterms become atoms (recorded in atoms: id -> term)"""
    if memo is None:
        memo = atoms.setdefault('__memo__', {})
    i0 = t.get_id()
    if i0 in memo:
        return memo[i0]
    r = _from_term(t, atoms, depth, memo)
    memo[i0] = r
    return r


def _from_term(t, atoms, depth, memo):
    if depth > 400:
        raise TooBig()
    if z3.is_rational_value(t) or z3.is_int_value(t):
        return Poly.const(t.as_fraction())
    if not z3.is_app(t):
        raise TooBig()
    k = t.decl().kind()
    ch = t.children()
    if k == z3.Z3_OP_ADD:
        r = Poly()
        for c in ch:
            r = r.add(from_term(c, atoms, depth + 1, memo))
        return r
    if k == z3.Z3_OP_SUB:
        r = from_term(ch[0], atoms, depth + 1, memo)
        for c in ch[1:]:
            r = r.add(from_term(c, atoms, depth + 1, memo), -1)
        return r
    if k == z3.Z3_OP_UMINUS:
        return from_term(ch[0], atoms, depth + 1, memo).scale(-1)
    if k == z3.Z3_OP_MUL:
        r = Poly.const(1)
        for c in ch:
            r = r.mul(from_term(c, atoms, depth + 1, memo))
        return r
    if k == z3.Z3_OP_TO_REAL:
        return from_term(ch[0], atoms, depth + 1, memo)
    if k == z3.Z3_OP_POWER and (z3.is_int_value(ch[1]) or z3.is_rational_value(ch[1])):
        e = ch[1].as_fraction()
        if e.denominator == 1 and 0 <= e.numerator <= 12:
            b = from_term(ch[0], atoms, depth + 1, memo)
            r = Poly.const(1)
            for _ in range(e.numerator):
                r = r.mul(b)
            return r
    if k == z3.Z3_OP_DIV and (z3.is_rational_value(ch[1]) or z3.is_int_value(ch[1])) and ch[1].as_fraction() != 0:
        return from_term(ch[0], atoms, depth + 1, memo).scale(1 / ch[1].as_fraction())
    i = t.get_id()
    atoms[i] = t
    return Poly.var(i)


def _rat_sqrt(v):
    if v < 0:
        return None
    n, d = v.numerator, v.denominator
    rn, rd = math.isqrt(n), math.isqrt(d)
    if rn * rn != n or rd * rd != d:
        return None
    return Fraction(rn, rd)


def psqrt(p):
    """q with q*q == p (leading coefficient of q positive), or None"""
    if p.is_zero():
        return Poly()
    order = _make_key(p)
    m0 = _lead(p, order)
    if any(e % 2 for _, e in m0):
        return None
    c0 = _rat_sqrt(p.c[m0])
    if c0 is None:
        return None
    h0 = tuple((i, e // 2) for i, e in m0)
    q = Poly({h0: c0})
    r = p.add(q.mul(q), -1)
    for _ in range(4000):
        if r.is_zero():
            return q
        m = _lead(r, order)
        if order(m) >= order(m0):
            return None
        qm = _mdiv(m, h0)
        if qm is None:
            return None
        term = Poly({qm: r.c[m] / (2 * c0)})
        # (q + t)^2 = q^2 + 2 q t + t^2
        r = r.add(q.mul(term).scale(2), -1).add(term.mul(term), -1)
        q = q.add(term)
        if len(q.c) > MAX_TERMS:
            return None
    return None


def reduce_squares(p, rad):
    """substitute v^2 = n/d for the square-root atoms v in rad (id -> (Poly n, Poly d or None)); returns a polynomial that is a
    POSITIVE multiple of p on the path (d != 0): p * prod d^(2 M)"""
    for vid, (n, d) in rad.items():
        mx = 0
        for m in p.c:
            for i, e in m:
                if i == vid and e >= 2:
                    mx = max(mx, e // 2)
        if mx == 0:
            continue
        nd = n if d is None else n.mul(d)
        d2 = None if d is None else d.mul(d)
        pw_nd = [Poly.const(1)]
        pw_d2 = [Poly.const(1)]
        for _ in range(mx):
            pw_nd.append(pw_nd[-1].mul(nd))
            pw_d2.append(pw_d2[-1].mul(d2) if d2 is not None else Poly.const(1))
        out = Poly()
        for m, c in p.c.items():
            e = dict(m).get(vid, 0)
            h = e // 2
            rest = tuple((i, x) for i, x in m if i != vid)
            if e % 2:
                rest = tuple(sorted(rest + ((vid, 1),)))
            term = Poly({rest: c}).mul(pw_nd[h]).mul(pw_d2[mx - h])
            out = out.add(term)
            if len(out.c) > MAX_TERMS:
                raise TooBig()
        p = out
    return p


def to_term(p, atoms):
    if p.is_zero():
        return z3.RealVal(0)
    parts = []
    key = _make_key(p)
    for m, v in sorted(p.c.items(), key=lambda kv: key(kv[0]), reverse=True):
        t = None
        for i, e in m:
            a = atoms[i]
            if a.sort().kind() == z3.Z3_INT_SORT:
                a = z3.ToReal(a)
            for _ in range(e):
                t = a if t is None else t * a
        cv = z3.RealVal(str(v))
        if t is None:
            t = cv
        elif v != 1:
            t = cv * t
        parts.append(t)
    return parts[0] if len(parts) == 1 else z3.Sum(parts)


def canonical(p, positive_ids=()):
    """(key, sign): p = sign-carrying positive multiple of the polynomial identified by key: monomial content in atoms known to be
    positive removed, leading coefficient (graded lex) normalised to 1; sign = sign of the removed factor"""
    if p.is_zero():
        return (), 0
    q = p
    pos = set(positive_ids)
    if pos:
        mins = {}
        for m in p.c:
            d = dict(m)
            for i in pos:
                e = d.get(i, 0)
                mins[i] = e if i not in mins else min(mins[i], e)
        mins = {i: e for i, e in mins.items() if e > 0}
        if mins:
            cont = tuple(sorted(mins.items()))
            q = Poly({_mdiv(m, cont): v for m, v in p.c.items()})
    order = _make_key(q)
    lead = q.c[_lead(q, order)]
    q = q.scale(1 / lead)
    return tuple(sorted(q.c.items())), (1 if lead > 0 else -1)


def square_content(p, positive_ids=()):
    """p = mono^2 * rest with mono a monomial (largest even common power of every atom) times a rational perfect square;
    returns (mono as {id: exp}, rational factor of the root, rest)"""
    if p.is_zero():
        return {}, Fraction(1), p
    mins = {}
    first = True
    for m in p.c:
        d = dict(m)
        if first:
            mins = dict(d)
            first = False
        else:
            mins = {i: min(e, d.get(i, 0)) for i, e in mins.items()}
    half = {i: e // 2 for i, e in mins.items() if e // 2 > 0}
    rest = p
    if half:
        cont = tuple(sorted((i, 2 * e) for i, e in half.items()))
        rest = Poly({_mdiv(m, cont): v for m, v in p.c.items()})
    order = _make_key(rest)
    lead = rest.c[_lead(rest, order)]
    r = _rat_sqrt(abs(lead))
    fac = Fraction(1)
    if r is not None and r != 0 and r != 1:
        rest = rest.scale(1 / (r * r))
        fac = r
    return half, fac, rest


def perfect_square_root(term):
    """z3 term q >= or <= 0 with q*q == term as polynomials over Q (atoms = non-polynomial subterms), or None"""
    atoms = {}
    try:
        p = from_term(term, atoms)
        q = psqrt(p)
        if q is None:
            return None
        if not q.mul(q).add(p, -1).is_zero():      # (belt and braces)
            return None
        return to_term(q, atoms)
    except TooBig:
        return None
