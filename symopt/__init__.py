"""symopt: symbolic execution of the real optiland code through numpy (see /verif/DESIGN.md §2-§4)."""
