"""Explore one (harness, case) symbolically; discharge what the in-process solver can decide
quickly; serialise the rest as SMT-LIB2 for the external portfolio.  Runs as its own process:
   python -m symopt.worker <checks module> <harness id> <case index> <tier> <seed> <out.pkl> [prefix-json]
"""
import importlib
import json
import os
import pickle
import sys
import time
import traceback
import warnings

import math

import z3

from . import sv as _sv
from .sv import SV, SymBool, PathEnd, Leak, explore
from .sv import rv as sv_rv
from .harness import REGISTRY, Ctx
from .solve import smt2_text

QUICK_MS = int(os.environ.get('SYMOPT_QUICK_MS', '1500'))


def z3_to_py(v):
    if v is None:
        return None
    if z3.is_true(v):
        return True
    if z3.is_false(v):
        return False
    if z3.is_int_value(v):
        return v.as_long()
    if z3.is_rational_value(v):
        fr = v.as_fraction()
        return float(fr)
    if z3.is_algebraic_value(v):
        return float(v.approx(20).as_fraction())
    try:
        return float(str(v))
    except Exception:
        return None


def model_inputs(m, ctx):
    vals = {}
    for name, info in ctx.inputs.items():
        v = z3_to_py(m.eval(info['term'], model_completion=True))
        if v is None:
            continue
        vals[name] = v
    return vals


def model_funcs(m):
    out = {}
    for d in m.decls():
        if d.arity() == 0:
            continue
        fi = m[d]
        try:
            entries = []
            for i in range(fi.num_entries()):
                e = fi.entry(i)
                args = [z3_to_py(e.arg_value(j)) for j in range(e.num_args())]
                entries.append([args, z3_to_py(e.value())])
            els = z3_to_py(fi.else_value())
            out[d.name()] = dict(entries=entries, default=els)
        except Exception:
            pass
    return out


def quick_check(assertions, ms=QUICK_MS):
    """in-process check with a soft timeout and a watchdog interrupt (z3's own timeout is cooperative and can be late)"""
    import threading
    s = z3.Solver()
    s.set('timeout', ms)
    s.add(assertions)
    t0 = time.time()
    wd = threading.Timer(ms / 1000.0 * 2 + 1.0, lambda: z3.main_ctx().interrupt())
    wd.daemon = True
    wd.start()
    try:
        r = str(s.check())
    except z3.Z3Exception:
        r = 'unknown'
    finally:
        wd.cancel()
    dt = time.time() - t0
    m = None
    if r == 'sat':
        try:
            m = s.model()
        except z3.Z3Exception:
            r = 'unknown'
    return r, m, dt


def interior(pc, margin=1e-4):
    """strengthen path-condition literals so that a model lies in the interior of the path
    (robust against float rounding in the concrete run); None if pc has an equality"""
    out = []
    mg = z3.RealVal(str(margin))

    def lit(c, neg=False):
        k = c.decl().kind()
        if k == z3.Z3_OP_NOT:
            return lit(c.children()[0], not neg)
        ch = c.children()
        if k in (z3.Z3_OP_AND, z3.Z3_OP_OR):
            parts = [lit(x, neg) for x in ch]
            if any(p is None for p in parts):
                return None
            isand = (k == z3.Z3_OP_AND) != neg
            return z3.And(*parts) if isand else z3.Or(*parts)
        if len(ch) == 2 and ch[0].sort().kind() in (z3.Z3_REAL_SORT, z3.Z3_INT_SORT):
            a, b = ch
            if ch[0].sort().kind() == z3.Z3_INT_SORT:
                return z3.Not(c) if neg else c
            if k == z3.Z3_OP_EQ:
                return z3.Or(a + mg < b, b + mg < a) if neg else None
            if k == z3.Z3_OP_DISTINCT:
                return None if neg else z3.Or(a + mg < b, b + mg < a)
            if k in (z3.Z3_OP_LE, z3.Z3_OP_LT):
                return (b + mg < a) if neg else (a + mg < b)
            if k in (z3.Z3_OP_GE, z3.Z3_OP_GT):
                return (a + mg < b) if neg else (b + mg < a)
        return z3.Not(c) if neg else c
    for c in pc:
        r = lit(c)
        if r is None:
            return None
        out.append(r)
    return out


def run_task(modname, hid, case_idx, tier, seed, prefixes=None, split_depth=None):
    warnings.filterwarnings('ignore')
    os.environ.setdefault('MPLBACKEND', 'Agg')
    mod = importlib.import_module(modname)
    H = REGISTRY[hid]
    case = H['cases'](tier)[case_idx]
    from . import facade
    facade.import_all_optiland()
    facade.install()
    if hasattr(mod, 'sym_setup'):
        mod.sym_setup()
    t_start = time.time()
    paths = []
    pending = []
    stats = dict(feas_calls=0, quick_unsat=0, quick_sat=0, quick_unknown=0, quick_time=0.0)
    holder = {}

    def body():
        ctx = Ctx('sym', tier, case, seed=seed)
        _sv.E.ctx = ctx
        holder['ctx'] = ctx
        return H['fn'](ctx, **case)

    def on_path(eng, status, out, exc):
        ctx = getattr(eng, 'ctx', None)
        rec = dict(trace=''.join('1' if b else '0' for b in eng.trace), status=status, n_pc=len(eng.pc),
                   n_defs=len(eng.defs), obligations=[], notes=list(eng.notes) + (ctx.notes if ctx else []))
        stats['feas_calls'] += eng.feas_calls
        if status.startswith('leak') or ctx is None:
            rec['error'] = status + ' ' + ''.join(traceback.format_exception(exc)[-6:]) if exc else status
            return rec
        hyp = eng.base + eng.pc + eng.defs
        obs = list(ctx.obligations)
        if status.startswith('exception'):
            from .replay import exc_origin
            tb = ''.join(traceback.format_exception(exc)[-8:])
            rec['exception'] = tb[-1500:]
            if exc_origin(exc) != 'library':
                rec['error'] = 'exception in harness code: ' + tb[-1200:]
                return rec
            obs.append(('no_exception', False, dict(exc=type(exc).__name__, msg=str(exc)[:200])))
        # reachability twin (also yields a model for encoding validation)
        r, m, dt = quick_check(hyp, QUICK_MS)
        rec['twin'] = r
        twin_model = m
        if r == 'unknown':
            pending.append(dict(kind='twin', path=len(paths), rungs=[('all', smt2_text(hyp))]))
        if r == 'unsat':
            rec['infeasible'] = True
            return rec
        if r == 'sat' and status == 'ok' and ctx.observations:
            ipc = interior(eng.pc)
            if ipc is not None:
                r2, m2, _ = quick_check(eng.base + ipc + eng.defs, QUICK_MS)
                if r2 == 'sat' and (eng.trig_atoms or eng.exp_atoms):
                    # the axioms for sin/cos/exp are incomplete: pin them to the true function values at the
                    # model's arguments so that the symbolic side is comparable with a concrete run
                    pins = []
                    eps = z3.RealVal('1/1000000000')
                    for (t, c, sn) in eng.trig_atoms:
                        a = z3_to_py(m2.eval(t, model_completion=True))
                        av = m2.eval(t, model_completion=True)
                        pins += [t == av, c >= sv_rv(math.cos(a)) - eps, c <= sv_rv(math.cos(a)) + eps,
                                 sn >= sv_rv(math.sin(a)) - eps, sn <= sv_rv(math.sin(a)) + eps]
                    for (arg, v) in eng.exp_atoms:
                        at = arg.term()
                        a = z3_to_py(m2.eval(at, model_completion=True))
                        av = m2.eval(at, model_completion=True)
                        ev = math.exp(max(min(a, 600.0), -600.0))
                        pins += [at == av, v >= sv_rv(ev * (1 - 1e-9)), v <= sv_rv(ev * (1 + 1e-9))]
                    r2, m2, _ = quick_check(eng.base + ipc + eng.defs + pins, 3 * QUICK_MS)
                if r2 == 'sat':
                    try:
                        obsv = {}
                        for nm, v in ctx.observations:
                            v = SV.of(v) if not isinstance(v, (SymBool, bool)) else v
                            if isinstance(v, SV):
                                obsv[nm] = z3_to_py(m2.eval(v.term(), model_completion=True)) if v.finite() else v.c
                        rec['validation'] = dict(inputs=model_inputs(m2, ctx), funcs=model_funcs(m2), expected=obsv)
                    except Exception as e:  # noqa
                        rec['validation_error'] = repr(e)
        for name, cond, info in obs:
            o = dict(name=name, info={k: (v if isinstance(v, (int, float, str, bool, type(None))) else repr(v))
                                      for k, v in info.items()})
            if isinstance(cond, SymBool):
                cterm = z3.simplify(cond.t)
                if z3.is_true(cterm):
                    o.update(verdict='proved', how='simplify')
                else:
                    neg = z3.Not(cond.t)
                    r, m, dt = quick_check(hyp + [neg])
                    stats['quick_time'] += dt
                    stats['quick_' + r] += 1
                    if r == 'unsat':
                        o.update(verdict='proved', how='inproc', time=round(dt, 3))
                    elif r == 'sat':
                        o.update(verdict='cex', how='inproc', time=round(dt, 3),
                                 inputs=model_inputs(m, ctx), funcs=model_funcs(m))
                        if os.environ.get('SYMOPT_DEBUG_CEX'):
                            print('DEBUG-CEX', name, rec['trace'], o['inputs'], flush=True)
                            for i_, l_ in enumerate(eng.pc):
                                print('   pc', i_, m.eval(l_, model_completion=True), l_.sexpr()[:260].replace('\n', ' '), flush=True)
                            for d_ in m.decls():
                                print('   model', d_, m[d_], flush=True)
                    else:
                        rungs = [('defs', smt2_text(eng.defs + [neg])),
                                 ('defs+pc', smt2_text(eng.defs + eng.pc + [neg])),
                                 ('all', smt2_text(hyp + [neg]))]
                        o.update(verdict='pending')
                        pending.append(dict(kind='ob', path=len(paths), ob=len(rec['obligations']), rungs=rungs,
                                            input_names={n: i['kind'] for n, i in ctx.inputs.items()}))
                    sx = cterm.sexpr()
                    o['formula'] = sx if len(sx) < 400 else sx[:400] + ' ...'
            elif bool(cond):
                o.update(verdict='proved', how='concrete')
            else:
                # concretely false on this path: a counterexample iff the path is feasible
                if twin_model is not None:
                    o.update(verdict='cex', how='concrete-false', inputs=model_inputs(twin_model, ctx),
                             funcs=model_funcs(twin_model))
                else:
                    o.update(verdict='pending-twin')
            rec['obligations'].append(o)
        rec['input_kinds'] = {n: i['kind'] for n, i in ctx.inputs.items()}
        return rec

    def on_path_wrapped(eng, status, out, exc):
        rec = on_path(eng, status, out, exc)
        paths.append(rec)
        return None

    maxp = H['max_paths'] or (400 if tier == 'quick' else 3000)
    budget = float(os.environ.get('SYMOPT_TASK_BUDGET_S', '0') or 0)
    _, truncated = explore(body, max_paths=maxp, prefixes=prefixes, on_path=on_path_wrapped,
                           deadline=(t_start + budget) if budget > 0 else None)
    return dict(hid=hid, case_idx=case_idx, case=case, paths=paths, pending=pending, truncated=truncated,
                stats=stats, wall=round(time.time() - t_start, 2))


def main():
    """argv: module, json list of [hid, case_idx], tier, seed, out.pkl -- results are appended one by one"""
    modname, tasks, tier, seed, outfn = sys.argv[1:6]
    tasks = json.loads(tasks)
    with open(outfn, 'wb') as f:
        for hid, case_idx in tasks:
            try:
                res = run_task(modname, hid, int(case_idx), tier, int(seed))
            except BaseException as e:  # harness error
                res = dict(hid=hid, case_idx=int(case_idx), fatal=''.join(traceback.format_exception(e))[-3000:])
            pickle.dump(res, f)
            f.flush()


if __name__ == '__main__':
    main()
