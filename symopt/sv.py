"""Symbolic scalar values and the path explorer.

SV  : one scalar that is either a concrete IEEE double (incl. inf/nan) or a z3 Real/Int term.
      Stored as elements of numpy dtype=object arrays so that optiland's own numpy code
      drives the arithmetic.
SymBool: result of comparing SVs; bool(SymBool) forks the execution (Engine.decide).
Engine : state of one explored path (decision prefix, path condition, definitional
         side constraints, memo tables).
explore(): re-execution DFS over the decisions.

Semantics modelled: exact real arithmetic on finite values + IEEE special-value rules
for inf/nan and division by zero (numpy flavour by default; python-float flavour for
values created by the shadowed float()).
"""
import math
import os
import time
from fractions import Fraction

import numpy as np
import z3

_f = np.float64


class PathEnd(BaseException):
    """Ends the current path (cut / unsupported / assumption false). BaseException so that
    optiland's `except Exception` handlers cannot swallow it."""

    def __init__(self, kind, msg=''):
        super().__init__(f'{kind}:{msg}')
        self.kind = kind
        self.msg = msg


class Leak(BaseException):
    """A symbolic value reached code that needs a concrete number (harness error)."""


_RV_CACHE = {}


def rv(c):
    """z3 rational of a python float.  Floats are read as the decimal literal that denotes them (0.55 -> 11/20, as written in
    the source) rather than as their binary expansion; constants with more than 12 significant decimals (pi/180, ...) are
    rounded to a denominator <= 10^12 (relative deviation < 1e-12, far below the tolerance of the concrete replay).  This keeps
    the coefficients of the polynomial constraints small (binary expansions have 2^52 denominators that multiply up)."""
    if isinstance(c, Fraction):
        return z3.RealVal(str(c))
    c = float(c)
    r = _RV_CACHE.get(c)
    if r is not None:
        return r
    if c == int(c) and abs(c) < 1e15:
        r = z3.RealVal(int(c))
    else:
        fr = Fraction(repr(c))
        if fr.denominator > 10 ** 12:
            fr = fr.limit_denominator(10 ** 12)
        r = z3.RealVal(str(fr))
    _RV_CACHE[c] = r
    return r


POLY_NORMALISE = True
EXACT_TRIG = {}        # concrete angle (float) -> (cos, sin) as exact rational strings: Pythagorean rotations stay rational


def register_exact_angle(theta, cos_str, sin_str):
    """the concrete angle theta (a float, e.g. atan2(7, 24)) has exactly this rational cosine / sine over the reals"""
    neg = sin_str[1:] if sin_str.startswith('-') else '-' + sin_str
    EXACT_TRIG[float(theta)] = (cos_str, sin_str)
    EXACT_TRIG[-float(theta)] = (cos_str, neg)

SHARE_ATOMS = os.environ.get('SYMOPT_SHARE_ATOMS', '0') == '1'


class Engine:
    MAX_DECISIONS = 400

    def __init__(self, prefix=(), feas_timeout_ms=1500):
        self.prefix = list(prefix)
        self.trace = []        # decisions taken on this path
        self.forced = set()    # indices whose alternative was found infeasible
        self.pc = []           # z3 conditions of decisions
        self.defs = []         # definitional constraints (sqrt, trig, exp, ...)
        self.base = []         # harness assumptions
        self.memo = {}
        self.cache = {}
        self.n = 0
        self.feas_timeout_ms = feas_timeout_ms
        self.feas_calls = 0
        self.notes = []        # free-form notes (cuts, stubs hit)
        self.exp_args = {}     # exp var id -> argument SV
        self.signs = {}        # term id -> +1/-1 for terms whose sign is known (declared bounds, sqrt, exp)
        self.nonneg = set()    # term ids known >= 0
        self.trig_atoms = []   # (angle term, cos var, sin var) of fresh trig pairs
        self.exp_atoms = []    # (argument SV, exp var)
        self.keep = []         # keep z3 refs alive (ids are reused otherwise)
        self.sqrt_rad = {}     # sqrt atom id -> (numerator term, denominator term or None) of its radicand
        self.atom_cache = {}
        self.poly_atoms = {}   # canonical polynomial -> (ta, tb, sign) of the first atom built for it
        self.sqrt_poly = {}    # canonical radicand polynomial -> sqrt atom SV

    def fresh(self, name, sort='real'):
        self.n += 1
        nm = f'{name}!{self.n}'
        return z3.Real(nm) if sort == 'real' else (z3.Int(nm) if sort == 'int' else z3.Bool(nm))

    def feasible(self, cond):
        self.feas_calls += 1
        s = z3.Solver()
        s.set('timeout', self.feas_timeout_ms)
        s.add(self.base + self.pc + self.defs + [cond])
        import threading
        wd = threading.Timer(self.feas_timeout_ms / 1000.0 * 2 + 1.0, lambda: z3.main_ctx().interrupt())
        wd.daemon = True
        wd.start()
        try:
            return str(s.check()) != 'unsat'
        except z3.Z3Exception:
            return True
        finally:
            wd.cancel()

    def decide(self, cond):
        cond = z3.simplify(cond)
        if z3.is_true(cond):
            return True
        if z3.is_false(cond):
            return False
        key = cond.get_id()
        if key in self.cache:
            return self.cache[key][0]
        ncond = z3.simplify(z3.Not(cond))
        i = len(self.trace)
        if i >= self.MAX_DECISIONS:
            raise PathEnd('cut', 'max decisions')
        if getattr(self, 'deadline', None) is not None and time.time() > self.deadline:
            raise PathEnd('cut', 'time budget of the exploration')
        if i < len(self.prefix):
            v = self.prefix[i]
        else:
            v = True
            if not self.feasible(cond):
                v = False
                self.forced.add(i)
            elif not self.feasible(ncond):
                self.forced.add(i)
        self.trace.append(v)
        self.pc.append(cond if v else ncond)
        self.cache[key] = (v, cond)
        self.cache[ncond.get_id()] = (not v, ncond)
        return v

    def assume(self, cond):
        self.base.append(cond)

    def know_sign(self, term, sgn):
        self.signs[term.get_id()] = sgn
        self.keep.append(term)


E = None  # the engine of the path being executed (one per process)


def engine():
    return E


def set_engine(e):
    global E
    E = e


# ----------------------------------------------------------------------------------------
class SymBool:
    __slots__ = ('t',)
    __array_ufunc__ = None

    def __init__(self, t):
        self.t = t

    def __bool__(self):
        return E.decide(self.t)

    @staticmethod
    def term(o):
        if isinstance(o, SymBool):
            return o.t
        return z3.BoolVal(bool(o))

    def __or__(self, o):
        return SymBool(z3.Or(self.t, SymBool.term(o)))
    __ror__ = __or__

    def __and__(self, o):
        return SymBool(z3.And(self.t, SymBool.term(o)))
    __rand__ = __and__

    def __invert__(self):
        return SymBool(z3.Not(self.t))

    # arithmetic on a truth value (python: True + 1 == 2) forks on it
    def __add__(self, o):
        return int(bool(self)) + o
    __radd__ = __add__

    def __mul__(self, o):
        return int(bool(self)) * o
    __rmul__ = __mul__

    def __sub__(self, o):
        return int(bool(self)) - o

    def __rsub__(self, o):
        return o - int(bool(self))

    def __int__(self):
        return int(bool(self))

    def __eq__(self, o):
        return SymBool(self.t == SymBool.term(o))

    def __ne__(self, o):
        return SymBool(self.t != SymBool.term(o))

    __hash__ = None

    def __deepcopy__(self, m):
        return self

    def __repr__(self):
        return f'SymBool({self.t})'


def is_int_term(t):
    return t.sort().kind() == z3.Z3_INT_SORT


def _toreal(t):
    return z3.ToReal(t) if is_int_term(t) else t


def _term_size(t, cap):
    n = 0
    stack = [t]
    while stack and n < cap:
        c = stack.pop()
        n += 1
        stack.extend(c.children())
    return n


def _syn_nonneg(t, depth=0):
    """syntactically non-negative term (sums and products of squares, known non-negative atoms and constants >= 0)"""
    if depth > 60 or not z3.is_app(t):
        return False
    if z3.is_rational_value(t) or z3.is_int_value(t) or z3.is_algebraic_value(t):
        try:
            return float(t.as_fraction()) >= 0
        except Exception:
            return False
    if t.get_id() in E.nonneg:
        return True
    k = t.decl().kind()
    ch = t.children()
    if k == z3.Z3_OP_ADD:
        return all(_syn_nonneg(c, depth + 1) for c in ch)
    if k == z3.Z3_OP_MUL:
        flat = []
        stack = list(ch)
        while stack:
            c = stack.pop()
            if z3.is_app(c) and c.decl().kind() == z3.Z3_OP_MUL:
                stack.extend(c.children())
            else:
                flat.append(c)
        cnt = {}
        for c in flat:
            cnt.setdefault(c.get_id(), [c, 0])[1] += 1
        return all(n % 2 == 0 or _syn_nonneg(c, depth + 1) for c, n in cnt.values())
    if k == z3.Z3_OP_TO_REAL:
        return _syn_nonneg(ch[0], depth + 1)
    if k == z3.Z3_OP_ITE:
        return _syn_nonneg(ch[1], depth + 1) and _syn_nonneg(ch[2], depth + 1)
    return False


def _den_nonneg(d):
    return all(p % 2 == 0 or _syn_nonneg(t) for t, p in d.f.values())


class Den:
    """factored denominator: multiset {term id: (term, power)}; the value is known non-zero on the path"""
    __slots__ = ('f',)

    def __init__(self, f=None):
        self.f = f or {}

    @staticmethod
    def of(term):
        # split syntactic products into factors
        d = Den()
        d._add_term(term, 1)
        return d

    def _add_term(self, t, p):
        if z3.is_app(t) and t.decl().kind() == z3.Z3_OP_MUL:
            for c in t.children():
                self._add_term(c, p)
            return
        if z3.is_app(t) and t.decl().kind() == z3.Z3_OP_UMINUS:
            self._add_term(z3.RealVal(-1), p)
            self._add_term(t.children()[0], p)
            return
        k = t.get_id()
        if k in self.f:
            self.f[k] = (t, self.f[k][1] + p)
        else:
            self.f[k] = (t, p)

    def empty(self):
        return not self.f

    def mul(self, o):
        f = dict(self.f)
        for k, (t, p) in o.f.items():
            f[k] = (t, f[k][1] + p) if k in f else (t, p)
        return Den(f)

    def lcm(self, o):
        f = dict(self.f)
        for k, (t, p) in o.f.items():
            f[k] = (t, max(f[k][1], p)) if k in f else (t, p)
        return Den(f)

    def quotient_term(self, o):
        """term of self / o, where o divides self (multiset inclusion); None if equal"""
        r = None
        for k, (t, p) in self.f.items():
            q = p - (o.f[k][1] if k in o.f else 0)
            for _ in range(q):
                r = t if r is None else r * t
        return r

    def term(self):
        r = None
        for k, (t, p) in self.f.items():
            for _ in range(p):
                r = t if r is None else r * t
        return r

    def same(self, o):
        if len(self.f) != len(o.f):
            return False
        return all(k in o.f and o.f[k][1] == p for k, (t, p) in self.f.items())

    def sign_known(self):
        """+1/-1 if the sign of the product is known syntactically, else None"""
        s = 1
        for k, (t, p) in self.f.items():
            if p % 2 == 0:
                continue
            if z3.is_rational_value(t):
                s *= 1 if t.as_fraction() > 0 else -1
                continue
            sg = E.signs.get(k) if E is not None else None
            if sg is None:
                return None
            s *= sg
        return s


class SV:
    """concrete-or-symbolic scalar.  Symbolic values are kept in rational normal form n/d with a
    factored denominator d (known non-zero: every division forks on divisor == 0)."""
    __slots__ = ('c', 'n', 'd', 'py')

    def __init__(self, c=None, t=None, py=False, d=None):
        self.c = None if c is None else float(c)
        self.n = t
        self.d = d if (d is not None and not d.empty()) else None
        self.py = py  # python-float flavour (x/0 raises) instead of numpy flavour (x/0 = inf)

    # -- construction helpers
    @staticmethod
    def of(o):
        if isinstance(o, SV):
            return o
        if isinstance(o, (bool, np.bool_)):
            return SV(float(o))
        if isinstance(o, (int, float, np.floating, np.integer)):
            return SV(float(o))
        if isinstance(o, np.ndarray) and o.ndim == 0:
            return SV.of(o.item())
        return None

    @property
    def sym(self):
        return self.n is not None

    @property
    def t(self):
        """single z3 term (with a division if the denominator is non-trivial)"""
        if self.n is None:
            return None
        if self.d is None:
            return self.n
        return _toreal(self.n) / self.d.term()

    def num(self):
        return self.n if self.n is not None else rv(self.c)

    def term(self):
        return self.t if self.n is not None else rv(self.c)

    def finite(self):
        return self.n is not None or math.isfinite(self.c)

    # -- arithmetic
    def _prep(self, o, op, rev):
        if isinstance(o, np.ndarray) and o.ndim > 0:
            return NotImplemented
        if isinstance(o, complex) or type(o).__name__ in ('SC', 'Jet'):
            return NotImplemented
        o = SV.of(o)
        if o is None:
            return NotImplemented
        a, b = (o, self) if rev else (self, o)
        if not a.sym and not b.sym:
            if (a.py or b.py) and op is _div and b.c == 0.0:
                raise ZeroDivisionError('float division by zero')
            with np.errstate(all='ignore'):
                return SV(op(_f(a.c), _f(b.c)), py=a.py and b.py)
        return (a, b)

    @staticmethod
    def _addsub(a, b, sub):
        py = a.py and b.py
        an, bn = a.num(), b.num()
        if a.d is None and b.d is None:
            return SV(t=(an - bn) if sub else (an + bn), py=py)
        ad = a.d or Den()
        bd = b.d or Den()
        if ad.same(bd):
            return SV(t=(an - bn) if sub else (an + bn), d=ad, py=py)
        L = ad.lcm(bd)
        qa = L.quotient_term(ad)
        qb = L.quotient_term(bd)
        ta = _toreal(an) if qa is None else _toreal(an) * qa
        tb = _toreal(bn) if qb is None else _toreal(bn) * qb
        return SV(t=(ta - tb) if sub else (ta + tb), d=L, py=py)

    def __add__(self, o, rev=False):
        r = self._prep(o, _add, rev)
        if not isinstance(r, tuple):
            return r
        a, b = r
        if not a.finite():
            return SV(a.c)
        if not b.finite():
            return SV(b.c)
        if not a.sym and a.c == 0.0:
            return b
        if not b.sym and b.c == 0.0:
            return a
        return SV._addsub(a, b, False)

    def __radd__(self, o):
        return self.__add__(o, True)

    def __sub__(self, o, rev=False):
        r = self._prep(o, _sub, rev)
        if not isinstance(r, tuple):
            return r
        a, b = r
        if not a.finite():
            return SV(a.c)
        if not b.finite():
            return SV(-b.c)
        if not b.sym and b.c == 0.0:
            return a
        return SV._addsub(a, b, True)

    def __rsub__(self, o):
        return self.__sub__(o, True)

    def __mul__(self, o, rev=False):
        r = self._prep(o, _mul, rev)
        if not isinstance(r, tuple):
            return r
        a, b = r
        for u, v in ((a, b), (b, a)):
            if not u.finite():
                if math.isnan(u.c):
                    return SV(u.c)
                if v > 0:
                    return SV(u.c)
                if v < 0:
                    return SV(-u.c)
                return SV(float('nan'))
        for u, v in ((a, b), (b, a)):
            if not u.sym and u.c == 0.0:
                return SV(0.0)  # 0 * finite symbolic
            if not u.sym and u.c == 1.0:
                return v
        d = None
        if a.d is not None or b.d is not None:
            d = (a.d or Den()).mul(b.d or Den())
        if not a.sym and a.c == -1.0:
            return SV(t=-b.num(), d=d, py=a.py and b.py)
        if not b.sym and b.c == -1.0:
            return SV(t=-a.num(), d=d, py=a.py and b.py)
        return SV(t=a.num() * b.num(), d=d, py=a.py and b.py)

    def __rmul__(self, o):
        return self.__mul__(o, True)

    def __truediv__(self, o, rev=False):
        r = self._prep(o, _div, rev)
        if not isinstance(r, tuple):
            return r
        a, b = r
        py = a.py or b.py
        if not a.finite():
            if math.isnan(a.c):
                return SV(a.c)
            if not b.finite():
                return SV(float('nan'))
            if b > 0:
                return SV(a.c)
            if b < 0:
                return SV(-a.c)
            return SV(a.c)  # inf/0 (sign of zero ignored)
        if not b.finite():
            return SV(float('nan')) if math.isnan(b.c) else SV(0.0)
        if b == 0:
            if py:
                raise ZeroDivisionError('float division by zero')
            if a == 0:
                return SV(float('nan'))
            return SV(float('inf')) if a > 0 else SV(float('-inf'))
        if not a.sym and a.c == 0.0:
            return SV(0.0)
        if not b.sym and b.c == 1.0:
            return a
        if b.sym and b.d is None and b.n.get_id() in E.nonneg:
            E.signs[b.n.get_id()] = 1  # non-negative and non-zero on this path
        if not b.sym:
            # division by a concrete constant: keep the denominator trivial
            return SV(t=_toreal(a.num()) * rv(Fraction(1) / Fraction(repr(b.c))), d=a.d, py=a.py and b.py)
        # (an/ad) / (bn/bd) = an*bd / (ad*bn)
        num = _toreal(a.num())
        if b.d is not None:
            num = num * b.d.term()
        den = (a.d or Den()).mul(Den.of(_toreal(b.n)))
        return SV(t=num, d=den, py=a.py and b.py)

    def __rtruediv__(self, o):
        return self.__truediv__(o, True)

    def __floordiv__(self, o, rev=False):
        o = SV.of(o)
        if o is None:
            return NotImplemented
        a, b = (o, self) if rev else (self, o)
        if not a.sym and not b.sym:
            return SV(a.c // b.c)
        if a.d is not None or b.d is not None:
            raise PathEnd('unsupported', 'floordiv on rationals')
        at, bt = a.num(), b.num()
        if not is_int_term(at) and not a.sym and a.c == int(a.c):
            at = z3.IntVal(int(a.c))
        if not is_int_term(bt) and not b.sym and b.c == int(b.c):
            bt = z3.IntVal(int(b.c))
        if is_int_term(at) and is_int_term(bt):
            if not (b > 0):
                raise PathEnd('unsupported', 'floordiv by non-positive')
            return SV(t=at / bt)  # z3 int division = floor for positive divisor
        raise PathEnd('unsupported', 'floordiv on reals')

    def __rfloordiv__(self, o):
        return self.__floordiv__(o, True)

    def __mod__(self, o, rev=False):
        o = SV.of(o)
        if o is None:
            return NotImplemented
        a, b = (o, self) if rev else (self, o)
        if not a.sym and not b.sym:
            return SV(a.c % b.c)
        if a.d is not None or b.d is not None:
            raise PathEnd('unsupported', 'mod on rationals')
        at, bt = a.num(), b.num()
        if not is_int_term(at) and not a.sym and a.c == int(a.c):
            at = z3.IntVal(int(a.c))
        if not is_int_term(bt) and not b.sym and b.c == int(b.c):
            bt = z3.IntVal(int(b.c))
        if is_int_term(at) and is_int_term(bt):
            if not (b > 0):
                raise PathEnd('unsupported', 'mod by non-positive')
            return SV(t=at % bt)
        raise PathEnd('unsupported', 'mod on reals')

    def __rmod__(self, o):
        return self.__mod__(o, True)

    def __neg__(self):
        return SV(-self.c, py=self.py) if not self.sym else SV(t=-self.n, d=self.d, py=self.py)

    def __pos__(self):
        return self

    def __pow__(self, o):
        if isinstance(o, np.ndarray) and o.ndim > 0:
            return NotImplemented
        o = SV.of(o)
        if o is None:
            return NotImplemented
        if o.sym:
            raise PathEnd('unsupported', 'symbolic exponent')
        if not self.sym:
            with np.errstate(all='ignore'):
                return SV(_f(self.c) ** _f(o.c))
        e = o.c
        if e == 0.5:
            return self.sqrt()
        if e == -0.5:
            return SV(1.0) / self.sqrt()
        if e == 1.5:
            return self * self.sqrt()
        if not float(e).is_integer():
            raise PathEnd('unsupported', f'exponent {e}')
        e = int(e)
        if e == 0:
            return SV(1.0)
        r = self
        for _ in range(abs(e) - 1):
            r = r * self
        if e < 0:
            return SV(1.0) / r
        return r

    def __rpow__(self, o):
        o = SV.of(o)
        if o is None:
            return NotImplemented
        if not self.sym:
            with np.errstate(all='ignore'):
                return SV(_f(o.c) ** _f(self.c))
        if not o.sym and o.c == -1.0 and self.d is None and is_int_term(self.n):
            return SV(t=z3.If(self.n % 2 == 0, z3.RealVal(1), z3.RealVal(-1)))
        raise PathEnd('unsupported', 'symbolic exponent')

    def __abs__(self):
        if not self.sym:
            return SV(abs(self.c))
        return self if self >= 0 else -self

    def __round__(self, nd=None):
        if not self.sym:
            return SV(round(self.c, nd)) if nd else round(self.c)
        raise Leak('round() of a symbolic SV')

    def sqrt(self):
        if not self.sym:
            with np.errstate(all='ignore'):
                return SV(np.sqrt(_f(self.c)))
        # sqrt(x*x) = |x| (syntactic squares; keeps e.g. max_field = sqrt(0 + fy^2) tied to fy)
        if self.d is None and z3.is_app(self.n) and self.n.decl().kind() == z3.Z3_OP_MUL:
            ch = self.n.children()
            if len(ch) == 2 and ch[0].eq(ch[1]):
                return abs(SV(t=ch[0]))
        st = z3.simplify(self.t)
        key = ('sqrt', st.get_id())
        if key in E.memo and E.memo[key][1] is None:
            return E.memo[key][0]
        # perfect squares (verified by exact polynomial arithmetic): sqrt(q^2 / d^2) = |q| / |d|
        try:
            from .poly import perfect_square_root
            full = self.n if self.d is None else self.n * self.d.term()
            if _term_size(full, 3000) < 3000:
                q = perfect_square_root(full)
                if q is not None:
                    r = abs(SV(t=q))
                    if self.d is not None:
                        r = r / abs(SV(t=self.d.term()))
                    E.memo[key] = (r, None)
                    return r
        except z3.Z3Exception:
            pass
        if not (_syn_nonneg(self.n) and (self.d is None or _den_nonneg(self.d))) and self < 0:
            return SV(float('nan'))
        if key in E.memo:
            return E.memo[key][0]
        r = self._sqrt_canonical()
        if r is not None:
            E.memo[key] = (r, st)
            return r
        # canonical (sum-of-monomials) key: the same polynomial written differently shares its square root atom
        key2 = None
        try:
            if self.d is None and _term_size(self.n, 400) < 400:
                key2 = ('sqrt-som', z3.simplify(self.n, som=True, sort_sums=True).get_id())
                if key2 in E.memo:
                    E.memo[key] = E.memo[key2]
                    return E.memo[key2][0]
        except z3.Z3Exception:
            key2 = None
        v = E.fresh('sqrt')
        if self.d is None:
            E.defs += [v >= 0, v * v == _toreal(self.n)]
        else:
            E.defs += [v >= 0, v * v * self.d.term() == _toreal(self.n)]
        r = SV(t=v)
        E.memo[key] = (r, st)
        if key2 is not None:
            E.memo[key2] = (r, st)
        E.sqrt_rad[v.get_id()] = (_toreal(self.n), None if self.d is None else self.d.term())
        E.nonneg.add(v.get_id())
        E.keep.append(v)
        return r

    def _sqrt_canonical(self):
        """sqrt(n/d) = mono * fac * sqrt(rest) / |d| with  n d = mono^2 fac^2 rest  (exact polynomial arithmetic); the atom for
        sqrt(rest) is shared between all radicands with the same canonical polynomial (scaled, mirrored, re-written copies)"""
        from . import poly
        try:
            full = _toreal(self.n) if self.d is None else _toreal(self.n) * self.d.term()
            if _term_size(full, 3000) >= 3000:
                return None
            atoms = {}
            p = poly.from_term(full, atoms)
            if p.is_zero() or len(p.c) > 1500:
                return None
            half, fac, rest = poly.square_content(p)
            ckey = tuple(sorted(rest.c.items()))
            v = E.sqrt_poly.get(ckey)
            if v is None:
                if len(rest.c) == 1 and () in rest.c:
                    c = rest.c[()]
                    if c < 0:
                        return None
                    v = SV(math.sqrt(float(c)))
                    if v.c * v.c != float(c):
                        return None
                else:
                    a = E.fresh('sqrt')
                    rt = poly.to_term(rest, atoms)
                    E.defs += [a >= 0, a * a == rt]
                    E.sqrt_rad[a.get_id()] = (rt, None)
                    E.nonneg.add(a.get_id())
                    E.keep += [a, rt]
                    v = SV(t=a)
                E.sqrt_poly[ckey] = v
            r = v
            if fac != 1:
                r = r * SV(t=z3.RealVal(str(fac)))
            for i, e in sorted(half.items()):
                b = SV(t=atoms[i])
                if E.signs.get(i) != 1 and i not in E.nonneg:
                    b = abs(b)
                for _ in range(e):
                    r = r * b
            if self.d is not None:
                r = r / abs(SV(t=self.d.term()))
            return r
        except (poly.TooBig, z3.Z3Exception):
            return None

    # -- trigonometry: angles are SVs; (cos, sin) are memoised per simplified angle term
    def _trig(self):
        from .trig import trig_of
        return trig_of(self)

    def cos(self):
        if not self.sym:
            ex = EXACT_TRIG.get(float(self.c))
            return SV(t=z3.RealVal(ex[0])) if ex else SV(math.cos(self.c))
        return self._trig()[0]

    def sin(self):
        if not self.sym:
            ex = EXACT_TRIG.get(float(self.c))
            return SV(t=z3.RealVal(ex[1])) if ex else SV(math.sin(self.c))
        return self._trig()[1]

    def tan(self):
        if not self.sym:
            return SV(math.tan(self.c))
        c, s = self._trig()
        return s / c

    def radians(self):
        return self * (math.pi / 180.0)
    deg2rad = radians

    def degrees(self):
        return self * (180.0 / math.pi)
    rad2deg = degrees

    def arcsin(self):
        from .trig import arcsin_of
        return arcsin_of(self)

    def arccos(self):
        from .trig import arccos_of
        return arccos_of(self)

    def arctan(self):
        from .trig import arctan_of
        return arctan_of(self)

    def exp(self):
        if not self.sym:
            with np.errstate(all='ignore'):
                return SV(np.exp(_f(self.c)))
        t = z3.simplify(self.t)
        key = ('exp', t.get_id())
        if key in E.memo:
            return E.memo[key][0]
        v = E.fresh('exp')
        sgn = self.sign_conds()
        E.defs += [v > 0, z3.Implies(sgn['le0'], v <= 1), z3.Implies(sgn['ge0'], v >= 1),
                   z3.Implies(sgn['eq0'], v == 1)]
        r = SV(t=v)
        E.memo[key] = (r, t)
        E.exp_args[v.get_id()] = self
        for (a2, v2) in E.exp_atoms[-6:]:
            eqc = self._cmp(a2, _eq, _eq)
            if isinstance(eqc, SymBool):
                E.defs.append(z3.Implies(eqc.t, v == v2))
            elif eqc is True:
                E.defs.append(v == v2)        # the arguments are the same polynomial (decided by exact arithmetic)
            if a2.d is None and self.d is None:
                E.defs.append(z3.Implies(self.n <= a2.n, v <= v2))
                E.defs.append(z3.Implies(self.n >= a2.n, v >= v2))
        E.exp_atoms.append((self, v))
        E.signs[v.get_id()] = 1
        E.keep.append(v)
        return r

    def sign_conds(self):
        """division-free z3 conditions for self<=0, >=0, ==0"""
        n = _toreal(self.n)
        if self.d is None:
            return dict(le0=n <= 0, ge0=n >= 0, eq0=n == 0)
        sk = self.d.sign_known()
        if sk is not None:
            m = n if sk > 0 else -n
            return dict(le0=m <= 0, ge0=m >= 0, eq0=n == 0)
        p = n * self.d.term()
        return dict(le0=p <= 0, ge0=p >= 0, eq0=n == 0)

    def log(self):
        if not self.sym:
            with np.errstate(all='ignore'):
                return SV(np.log(_f(self.c)))
        raise PathEnd('unsupported', 'log of symbolic')

    # complex-number protocol used by numpy on object arrays
    def conjugate(self):
        return self

    @property
    def real(self):
        return self

    @property
    def imag(self):
        return SV(0.0)

    # -- comparisons (division-free atoms)
    @staticmethod
    def _atom(zop, ta, tb):
        """the atom  ta <zop> tb;  decided concretely when exact polynomial arithmetic (with v^2 = radicand for the square-root
        atoms) reduces ta - tb to a constant"""
        key = (zop, ta.get_id(), tb.get_id())
        hit = E.atom_cache.get(key)
        if hit is not None:
            return hit
        res = None
        if POLY_NORMALISE and _term_size(ta, 2500) + _term_size(tb, 2500) < 2500:
            try:
                from . import poly
                atoms = {}
                p = poly.from_term(ta, atoms).add(poly.from_term(tb, atoms), -1)
                if E.sqrt_rad and not p.is_zero():
                    rad = {}
                    present = {i for m in p.c for i, _ in m}
                    for vid, (n, d) in E.sqrt_rad.items():
                        if vid in present:
                            rad[vid] = (poly.from_term(n, atoms), None if d is None else poly.from_term(d, atoms))
                    if rad:
                        p = poly.reduce_squares(p, rad)
                if p.is_zero():
                    res = bool(zop(0, 0))
                elif len(p.c) == 1 and () in p.c:
                    res = bool(zop(p.c[()], 0))
                elif SHARE_ATOMS and len(p.c) <= 1500:
                    # the same polynomial up to a positive factor: share ONE atom (the decision cache then recognises it)
                    present = {i for m in p.c for i, _ in m}
                    ckey, sg = poly.canonical(p, [i for i in present if E.signs.get(i) == 1])
                    first = E.poly_atoms.get(ckey)
                    if first is None:
                        E.poly_atoms[ckey] = (ta, tb, sg)
                    else:
                        fa, fb, fs = first
                        res = SymBool(zop(fa, fb)) if fs == sg else SymBool(zop(fb, fa))
            except poly.TooBig:
                res = None
        if res is None:
            res = SymBool(zop(ta, tb))
        E.atom_cache[key] = res
        E.keep.append(ta)
        E.keep.append(tb)
        return res

    def _cmp(self, o, op, zop):
        if isinstance(o, np.ndarray) and o.ndim > 0:
            return NotImplemented
        if o is None or isinstance(o, str):
            return op is _ne if op in (_ne, _eq) else NotImplemented
        o2 = SV.of(o)
        if o2 is None:
            return NotImplemented
        o = o2
        if not self.sym and not o.sym:
            return bool(op(self.c, o.c))
        for u in (self, o):
            if not u.sym and math.isnan(u.c):
                return op is _ne
        if not self.finite():
            return bool(op(self.c, 0.0))
        if not o.finite():
            return bool(op(0.0, o.c))
        a, b = self, o
        if a.d is None and b.d is None:
            an, bn = a.num(), b.num()
            if an.sort().kind() == z3.Z3_REAL_SORT and bn.sort().kind() == z3.Z3_REAL_SORT:
                return SV._atom(zop, an, bn)
            return SymBool(zop(an, bn))
        ad = a.d or Den()
        bd = b.d or Den()
        if op in (_eq, _ne):
            if ad.same(bd):
                return SymBool(zop(a.num(), b.num()))
            L = ad.lcm(bd)
            qa, qb = L.quotient_term(ad), L.quotient_term(bd)
            ta = _toreal(a.num()) if qa is None else _toreal(a.num()) * qa
            tb = _toreal(b.num()) if qb is None else _toreal(b.num()) * qb
            return SV._atom(zop, ta, tb)
        L = ad.lcm(bd)
        qa, qb = L.quotient_term(ad), L.quotient_term(bd)
        ta = _toreal(a.num()) if qa is None else _toreal(a.num()) * qa
        tb = _toreal(b.num()) if qb is None else _toreal(b.num()) * qb
        sk = L.sign_known()
        if sk is None:
            # odd-power factors of unknown sign: multiply through once more
            odd = None
            for k, (t, p) in L.f.items():
                if p % 2 == 1 and not (z3.is_rational_value(t) and t.as_fraction() > 0) and E.signs.get(k) != 1:
                    odd = t if odd is None else odd * t
            return SV._atom(zop, ta * odd, tb * odd)
        if sk > 0:
            return SV._atom(zop, ta, tb)
        return SV._atom(zop, tb, ta)

    def __lt__(self, o):
        return self._cmp(o, _lt, _lt)

    def __le__(self, o):
        return self._cmp(o, _le, _le)

    def __gt__(self, o):
        return self._cmp(o, _gt, _gt)

    def __ge__(self, o):
        return self._cmp(o, _ge, _ge)

    def __eq__(self, o):
        return self._cmp(o, _eq, _eq)

    def __ne__(self, o):
        return self._cmp(o, _ne, _ne)

    def __hash__(self):
        return 0

    def __float__(self):
        if self.sym:
            raise Leak('float() of a symbolic SV')
        return self.c

    def __int__(self):
        if self.sym:
            raise Leak('int() of a symbolic SV')
        return int(self.c)

    def __index__(self):
        if self.sym or self.c != int(self.c):
            raise Leak('index() of a symbolic SV')
        return int(self.c)

    def __bool__(self):
        if self.sym:
            return bool(self != 0)
        return self.c != 0

    def __deepcopy__(self, m):
        return self

    def __copy__(self):
        return self

    def __repr__(self):
        if not self.sym:
            return f'SV({self.c})'
        s = self.t.sexpr()
        return f'SV({s if len(s) < 200 else s[:200] + "..."})'

    def __format__(self, spec):
        if not self.sym:
            return format(self.c, spec)
        return repr(self)

    def is_integer(self):
        if not self.sym:
            return float(self.c).is_integer()
        return self.d is None and is_int_term(self.n)


def _add(a, b): return a + b
def _sub(a, b): return a - b
def _mul(a, b): return a * b
def _div(a, b): return a / b
def _lt(a, b): return a < b
def _le(a, b): return a <= b
def _gt(a, b): return a > b
def _ge(a, b): return a >= b
def _eq(a, b): return a == b
def _ne(a, b): return a != b


def svterm(x):
    """z3 term of an SV / number / 1-element array"""
    v = SV.of(x)
    if v is None and isinstance(x, np.ndarray) and x.size == 1:
        v = SV.of(x.reshape(-1)[0])
    if v is None:
        raise TypeError(f'not a scalar: {type(x)}')
    return v.term()


# ----------------------------------------------------------------------------------------
def explore(fn, max_paths=2000, prefixes=None, feas_timeout_ms=1500, on_path=None, deadline=None):
    """Re-execution DFS.  fn() runs the harness once under the current engine.
    on_path(engine, status, out, exc) is called at the end of every path (while the
    engine is still installed) and its return value is collected."""
    stack = [list(p) for p in (prefixes or [[]])]
    results = []
    truncated = False
    while stack:
        if len(results) >= max_paths or (deadline is not None and time.time() > deadline):
            truncated = True
            break
        pre = stack.pop()
        eng = Engine(pre, feas_timeout_ms)
        eng.deadline = deadline
        set_engine(eng)
        out = None
        exc = None
        try:
            out = fn()
            status = 'ok'
        except PathEnd as e:
            status = f'end:{e.kind}:{e.msg}'
        except Leak as e:
            status = f'leak:{e}'
            exc = e
        except Exception as e:  # raised by the code under test (or by the harness)
            status = f'exception:{type(e).__name__}'
            exc = e
        rec = on_path(eng, status, out, exc) if on_path else dict(status=status, out=out, exc=exc, engine=eng)
        results.append(rec)
        for i in range(len(pre), len(eng.trace)):
            if i in eng.forced:
                continue
            stack.append(eng.trace[:i] + [not eng.trace[i]])
    set_engine(None)
    return results, truncated
