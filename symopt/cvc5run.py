"""Run the cvc5 1.4 python wheel on an SMT-LIB2 file: prints sat/unsat/unknown (+ model)."""
import sys


def main():
    fn, tl, model = sys.argv[1], int(sys.argv[2]), sys.argv[3] == '1'
    import cvc5
    tm = cvc5.TermManager() if hasattr(cvc5, 'TermManager') else None
    slv = cvc5.Solver(tm) if tm is not None else cvc5.Solver()
    slv.setOption('tlimit', str(tl))
    slv.setOption('nl-cov', 'true')
    if model:
        slv.setOption('produce-models', 'true')
    parser = cvc5.InputParser(slv)
    parser.setFileInput(cvc5.InputLanguage.SMT_LIB_2_6, fn)
    sm = parser.getSymbolManager()
    res = None
    while True:
        cmd = parser.nextCommand()
        if cmd.isNull():
            break
        out = cmd.invoke(slv, sm)
        if out.strip():
            print(out.strip())
            if out.strip() in ('sat', 'unsat', 'unknown'):
                res = out.strip()
    if res == 'sat' and model:
        terms = sm.getDeclaredTerms()
        print('(')
        for t in terms:
            if t.getSort().isFunction():
                continue
            v = slv.getValue(t)
            try:
                if v.isRealAlgebraicNumber():
                    lo = v.getRealAlgebraicNumberLowerBound().getRealValue()
                    hi = v.getRealAlgebraicNumberUpperBound().getRealValue()
                    v = float(lo + hi) / 2
                    # refine by bisection on the defining polynomial is not needed: replay filters
            except Exception:
                pass
            print(f'(define-fun {t} () {t.getSort()} {v})')
        print(')')


if __name__ == '__main__':
    try:
        main()
    except Exception as e:  # any failure = no answer from this solver
        print('(error "%s")' % str(e).replace('"', "'"))
