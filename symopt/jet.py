"""Jets: truncated power series a0 + a1 eps + ... + a_ORD eps^ORD with SV coefficients.  Running the real ray-trace code on
jets turns the LIMIT statements (real rays -> paraxial rays as aperture/field -> 0, third-order error terms) into algebraic
identities between coefficients.  Comparisons use the leading non-zero coefficient (the eps -> 0+ branch)."""
import math

import numpy as np

from .sv import SV, SymBool, PathEnd
from . import facade

ORD = 2


def set_order(n):
    global ORD
    ORD = n


def _sv(x):
    r = SV.of(x)
    if r is None:
        raise TypeError(f'not a scalar: {type(x)}')
    return r


class Jet:
    """a[k] = coefficient of eps^k; p = number of leading coefficients that are exact (a division of two series that both
    vanish to order v cancels eps^v and leaves the top v coefficients unknown: p drops by v; obligations may only be stated on
    coefficients below p)"""
    __slots__ = ('a', 'p')

    def __init__(self, a, p=None):
        a = [_sv(x) for x in a]
        a = a + [SV(0.0)] * (ORD + 1 - len(a))
        self.a = a[:ORD + 1]
        self.p = ORD + 1 if p is None else p

    @staticmethod
    def of(o):
        if isinstance(o, Jet):
            return o
        r = SV.of(o)
        return None if r is None else Jet([r])

    def _b(self, o):
        if isinstance(o, np.ndarray) and o.ndim > 0:
            return None
        return Jet.of(o)

    def finite(self):
        return all(c.finite() for c in self.a)

    @property
    def sym(self):
        return True

    def __add__(self, o):
        o = self._b(o)
        if o is None:
            return NotImplemented
        return Jet([x + y for x, y in zip(self.a, o.a)], min(self.p, o.p))
    __radd__ = __add__

    def __neg__(self):
        return Jet([-x for x in self.a], self.p)

    def __pos__(self):
        return self

    def __sub__(self, o):
        o = self._b(o)
        if o is None:
            return NotImplemented
        return Jet([x - y for x, y in zip(self.a, o.a)], min(self.p, o.p))

    def __rsub__(self, o):
        o = self._b(o)
        if o is None:
            return NotImplemented
        return o - self

    def __mul__(self, o):
        o = self._b(o)
        if o is None:
            return NotImplemented
        r = [SV(0.0)] * (ORD + 1)
        for i, x in enumerate(self.a):
            if not x.sym and x.c == 0.0:
                continue
            for j, y in enumerate(o.a):
                if i + j <= ORD:
                    r[i + j] = r[i + j] + x * y
        return Jet(r, min(self.p, o.p))
    __rmul__ = __mul__

    def valuation(self):
        """index of the first coefficient that is not (known to be) zero; forks on symbolic coefficients"""
        for i, c in enumerate(self.a):
            if c == 0:
                continue
            return i
        return None

    def inv(self):
        a0 = self.a[0]
        if a0 == 0:
            raise PathEnd('jet', 'division by a series with zero leading coefficient')
        b = [SV(1.0) / a0]
        for n in range(1, ORD + 1):
            acc = SV(0.0)
            for k in range(1, n + 1):
                acc = acc + self.a[k] * b[n - k]
            b.append(-acc / a0)
        return Jet(b, self.p)

    def __truediv__(self, o):
        o = self._b(o)
        if o is None:
            return NotImplemented
        v = o.valuation()
        if v is None:
            # division by an identically vanishing series
            if self.valuation() is None:
                return Jet([float('nan')])
            return Jet([float('inf')]) if self > 0 else Jet([float('-inf')])
        if v > 0:
            w = self.valuation()
            if w is None:
                return Jet([0.0])
            if w < v:
                raise PathEnd('jet', 'pole in eps')
            # cancel eps^v: the quotient is exact only up to order p - v
            num = Jet(self.a[v:] + [SV(0.0)] * v, self.p - v)
            den = Jet(o.a[v:] + [SV(0.0)] * v, o.p - v)
            return num * den.inv()
        return self * o.inv()

    def __rtruediv__(self, o):
        o = self._b(o)
        if o is None:
            return NotImplemented
        return o.__truediv__(self)

    def __pow__(self, e):
        if isinstance(e, np.ndarray) and e.ndim > 0:
            return NotImplemented
        e = _sv(e)
        if e.sym:
            raise PathEnd('unsupported', 'symbolic exponent')
        if e.c == 0.5:
            return self.sqrt()
        if not float(e.c).is_integer():
            raise PathEnd('unsupported', f'jet power {e.c}')
        n = int(e.c)
        r = Jet([1.0])
        for _ in range(abs(n)):
            r = r * self
        return r if n >= 0 else r.inv()

    def sqrt(self):
        v = self.valuation()
        if v is None:
            return Jet([0.0])
        if v % 2 == 1:
            raise PathEnd('jet', 'square root of a series of odd order')
        lead = self.a[v]
        if lead < 0:
            return Jet([float('nan')] * (ORD + 1))
        h = v // 2
        s = Jet(self.a[v:] + [SV(0.0)] * v)      # series / eps^v
        b = [s.a[0].sqrt()]
        for n in range(1, ORD + 1):
            acc = s.a[n]
            for k in range(1, n):
                acc = acc - b[k] * b[n - k]
            b.append(acc / (2 * b[0]))
        return Jet([SV(0.0)] * h + b, self.p - h)

    def _trig(self):
        """(cos, sin) of the series"""
        a0 = self.a[0]
        d = Jet([SV(0.0)] + self.a[1:])
        # cos d, sin d for a series without constant term, up to ORD
        cd = Jet([1.0])
        sd = Jet([0.0])
        term = Jet([1.0])
        for k in range(1, ORD + 1):
            term = term * d * (1.0 / k)
            if k % 4 == 1:
                sd = sd + term
            elif k % 4 == 2:
                cd = cd - term
            elif k % 4 == 3:
                sd = sd - term
            else:
                cd = cd + term
        if not a0.sym and a0.c == 0.0:
            return cd, sd
        c0, s0 = a0.cos(), a0.sin()
        return cd * c0 - sd * s0, sd * c0 + cd * s0

    def cos(self):
        return self._trig()[0]

    def sin(self):
        return self._trig()[1]

    def tan(self):
        c, s = self._trig()
        return s / c

    def radians(self):
        return self * (math.pi / 180.0)
    deg2rad = radians

    def exp(self):
        if all((not c.sym) and c.c == 0 for c in self.a):
            return Jet([1.0])
        a0 = self.a[0]
        d = Jet([SV(0.0)] + self.a[1:])
        r = Jet([1.0])
        term = Jet([1.0])
        for k in range(1, ORD + 1):
            term = term * d * (1.0 / k)
            r = r + term
        return r * a0.exp()

    def _lex(self, o, op):
        o = self._b(o)
        if o is None:
            return NotImplemented
        d = self - o
        for c in d.a:
            if c == 0:
                continue
            return bool(op(c, 0))
        return bool(op(0, 0))

    def __lt__(self, o):
        return self._lex(o, lambda a, b: a < b)

    def __le__(self, o):
        return self._lex(o, lambda a, b: a <= b)

    def __gt__(self, o):
        return self._lex(o, lambda a, b: a > b)

    def __ge__(self, o):
        return self._lex(o, lambda a, b: a >= b)

    def __eq__(self, o):
        return self._lex(o, lambda a, b: a == b)

    def __ne__(self, o):
        return self._lex(o, lambda a, b: a != b)

    __hash__ = None

    def __abs__(self):
        return self if self >= 0 else -self

    def __bool__(self):
        return bool(self != 0)

    def __float__(self):
        raise facade.Leak('float() of a Jet')

    def conjugate(self):
        return self

    @property
    def real(self):
        return self

    def __deepcopy__(self, m):
        return self

    def __copy__(self):
        return self

    def __repr__(self):
        return 'Jet(' + ', '.join(map(repr, self.a)) + ')'


def jet(*coeffs):
    return Jet(coeffs)
