"""Concrete mode: run a harness on the *unpatched* optiland/numpy with inputs from a solver
model; evaluate every obligation in floating point.
   python -m symopt.replay <file.json>            (one scenario; exit 1 if a violation reproduces)
   python -m symopt.replay --batch <in.json> <out.json>
Scenario: {module, harness, case_idx | case, tier, inputs: {name: value}, funcs: {...}, obligation}
"""
import importlib
import json
import math
import os
import sys
import traceback
import warnings

from .harness import REGISTRY, Ctx, ReplayInvalid


def _mk_funcs(funcs):
    out = {}
    for name, tab in (funcs or {}).items():
        entries = tab.get('entries', [])
        default = tab.get('default')

        def f(*xs, entries=entries, default=default):
            for args, val in entries:
                if val is not None and len(args) == len(xs) and all(
                        a is not None and abs(a - x) <= 1e-9 * (1 + abs(x)) for a, x in zip(args, xs)):
                    return val
            if default is not None:
                return default
            raise KeyError('no entry')
        out[name] = f
    return out


def _plain(v):
    try:
        import numpy as np
        if isinstance(v, np.ndarray):
            v = v.reshape(-1)[0] if v.size == 1 else v.tolist()
        if isinstance(v, (np.floating, np.integer)):
            v = v.item()
        if isinstance(v, np.bool_):
            v = bool(v)
    except Exception:
        pass
    if isinstance(v, complex):
        return [v.real, v.imag]
    if isinstance(v, float) and not math.isfinite(v):
        return repr(v)
    if isinstance(v, (int, float, str, bool, type(None), list)):
        return v
    return repr(v)


def exc_origin(e):
    """'library' if the innermost optiland/checks frame of the traceback is optiland code, else 'harness'"""
    import traceback as _tb
    origin = 'harness'
    for fr in _tb.extract_tb(e.__traceback__):
        fn = fr.filename.replace('\\', '/')
        if '/optiland/' in fn:
            origin = 'library'
        elif '/checks/' in fn or '/symopt/harness.py' in fn:
            origin = 'harness'   # (façade frames are neutral: the library called them)
    return origin


def run_scenario(sc):
    warnings.filterwarnings('ignore')
    os.environ.setdefault('MPLBACKEND', 'Agg')
    mod = importlib.import_module(sc['module'])
    H = REGISTRY[sc['harness']]
    tier = sc.get('tier', 'quick')
    case = sc.get('case')
    if case is None:
        case = H['cases'](tier)[sc['case_idx']]
    if hasattr(mod, 'conc_setup'):
        mod.conc_setup()
    ctx = Ctx('conc', tier, case, values=sc.get('inputs', {}), funcs=_mk_funcs(sc.get('funcs')))
    res = dict(status='ok', obligations={}, observations={}, exception=None)
    try:
        H['fn'](ctx, **case)
    except ReplayInvalid as e:
        res['status'] = 'invalid'
        res['detail'] = str(e)
    except Exception as e:
        res['status'] = 'exception' if exc_origin(e) == 'library' else 'error'
        res['exception'] = type(e).__name__
        res['detail'] = ''.join(traceback.format_exception(e))[-1500:]
    for name, cond, info in ctx.obligations:
        try:
            res['obligations'][name] = bool(cond)
        except Exception as e:
            res['obligations'][name] = None
    if res['status'] == 'exception':
        res['obligations']['no_exception'] = False
    for name, v in ctx.observations:
        res['observations'][name] = _plain(v)
    res['inputs_used'] = {n: _plain(i.get('value')) for n, i in ctx.inputs.items()}
    res['violated'] = [n for n, ok in res['obligations'].items() if ok is False] if res['status'] in ('ok', 'exception') else []
    return res


def main():
    if sys.argv[1] == '--batch':
        scs = json.load(open(sys.argv[2]))
        out = []
        for sc in scs:
            try:
                out.append(run_scenario(sc))
            except BaseException as e:
                out.append(dict(status='error', detail=''.join(traceback.format_exception(e))[-1500:],
                                obligations={}, observations={}, violated=[]))
        json.dump(out, open(sys.argv[3], 'w'))
        return 0
    sc = json.load(open(sys.argv[1]))
    sys.path.insert(0, os.path.dirname(os.path.dirname(os.path.abspath(__file__))))
    res = run_scenario(sc)
    print(json.dumps(res, indent=1, default=repr))
    want = sc.get('obligation')
    if res['status'] == 'invalid':
        print('REPLAY: inputs do not satisfy the harness assumptions')
        return 2
    if res['violated']:
        print(f"REPLAY: VIOLATION reproduced property={sc.get('property')} harness={sc['harness']} "
              f"obligations={res['violated']}")
        return 1
    print('REPLAY: no violation with these inputs' + (f' (expected {want})' if want else ''))
    return 0


if __name__ == '__main__':
    sys.exit(main())
