"""Trigonometry over symbolic angles.

An angle is an ordinary SV (a real number).  (cos, sin) of an angle term are memoised per
simplified term; structure of the term is used definitionally:
   -u        -> (c(u), -s(u))
   u + v     -> angle-sum formulas
   k * u     -> repeated angle sum for small integer k
anything else -> fresh (c, s) with c^2 + s^2 = 1 and quadrant axioms.
arcsin/arccos/arctan/arctan2 create a fresh angle whose (c, s) are tied to the argument.
All axioms are true of the real functions (sound for `unsat`); they are incomplete, so a
`sat` can be spurious and must be replayed.
"""
import math

import z3

from . import sv as _sv
from .sv import SV, rv, PathEnd

HALF_PI = rv(math.pi / 2)
PI = rv(math.pi)


def _E():
    return _sv.E


def _register(t, c, s):
    E = _E()
    E.memo[('trig', t.get_id())] = (c, s, t)


def _int_const(t):
    if z3.is_int_value(t):
        return t.as_long()
    if z3.is_rational_value(t):
        fr = t.as_fraction()
        if fr.denominator == 1:
            return int(fr.numerator)
    return None


def trig_terms(t):
    """(cos, sin) as SVs for z3 angle term t (already simplified)"""
    E = _E()
    key = ('trig', t.get_id())
    if key in E.memo:
        return E.memo[key][:2]
    if z3.is_rational_value(t) or z3.is_algebraic_value(t):
        f = float(t.as_fraction()) if z3.is_rational_value(t) else float(t.approx(20).as_fraction())
        r = (SV(math.cos(f)), SV(math.sin(f)))
        E.memo[key] = (r[0], r[1], t)
        return r
    kind = t.decl().kind()
    ch = t.children()
    r = None
    if kind == z3.Z3_OP_UMINUS:
        c, s = trig_terms(z3.simplify(ch[0]))
        r = (c, -s)
    elif kind == z3.Z3_OP_MUL and len(ch) == 2 and _int_const(ch[0]) is not None and abs(_int_const(ch[0])) <= 6:
        k = _int_const(ch[0])
        c1, s1 = trig_terms(z3.simplify(ch[1]))
        c, s = c1, s1
        for _ in range(abs(k) - 1):
            c, s = c * c1 - s * s1, s * c1 + c * s1
        if k == 0:
            c, s = SV(1.0), SV(0.0)
        r = (c, s) if k > 0 else (c, -s)
    elif kind == z3.Z3_OP_ADD and len(ch) <= 4 and not any(z3.is_rational_value(x) for x in ch):
        c, s = trig_terms(z3.simplify(ch[0]))
        for x in ch[1:]:
            c2, s2 = trig_terms(z3.simplify(x))
            c, s = c * c2 - s * s2, s * c2 + c * s2
        r = (c, s)
    if r is None:
        c = E.fresh('cos')
        s = E.fresh('sin')
        E.defs.append(c * c + s * s == 1)
        E.defs += [z3.Implies(z3.And(t > -HALF_PI, t < HALF_PI), c > 0),
                   z3.Implies(z3.And(t > 0, t < PI), s > 0),
                   z3.Implies(z3.And(t < 0, t > -PI), s < 0),
                   z3.Implies(t == 0, z3.And(c == 1, s == 0))]
        r = (SV(t=c), SV(t=s))
        # congruence with the other trig atoms (equal angles => equal values), parity
        for (t2, c2, s2) in E.trig_atoms[-6:]:
            E.defs.append(z3.Implies(t == t2, z3.And(c == c2, s == s2)))
            E.defs.append(z3.Implies(t == -t2, z3.And(c == c2, s == -s2)))
        E.trig_atoms.append((t, c, s))
    E.memo[key] = (r[0], r[1], t)
    E.keep.append(t)
    return r


def trig_of(a):
    return trig_terms(z3.simplify(a.t))


def _fresh_angle(name, c, s, lo=None, hi=None):
    E = _E()
    a = E.fresh(name)
    if lo is not None:
        E.defs.append(a >= lo)
    if hi is not None:
        E.defs.append(a <= hi)
    E.memo[('trig', a.get_id())] = (c, s, a)
    E.keep.append(a)
    return SV(t=a)


def arcsin_of(x):
    if not x.sym:
        return SV(math.asin(x.c)) if -1 <= x.c <= 1 else SV(float('nan'))
    if (x < -1) or (x > 1):
        return SV(float('nan'))
    c = (1 - x * x).sqrt()
    a = _fresh_angle('asin', c, x, -HALF_PI - rv(1e-9), HALF_PI + rv(1e-9))
    E = _E()
    E.defs += [z3.Implies(x.t == 0, a.t == 0), z3.Implies(x.t > 0, a.t > 0), z3.Implies(x.t < 0, a.t < 0)]
    return a


def arccos_of(x):
    if not x.sym:
        return SV(math.acos(x.c)) if -1 <= x.c <= 1 else SV(float('nan'))
    if (x < -1) or (x > 1):
        return SV(float('nan'))
    s = (1 - x * x).sqrt()
    a = _fresh_angle('acos', x, s, rv(0), PI + rv(1e-9))
    return a


def arctan_of(x):
    if not x.sym:
        return SV(math.atan(x.c))
    E = _E()
    # c = 1/sqrt(1+x^2), s = x*c
    r = (1 + x * x).sqrt()
    c = SV(1.0) / r
    s = x / r
    a = _fresh_angle('atan', c, s, -HALF_PI, HALF_PI)
    E.defs += [z3.Implies(x.t == 0, a.t == 0), z3.Implies(x.t > 0, a.t > 0), z3.Implies(x.t < 0, a.t < 0)]
    return a


def arctan2_of(y, x):
    y = SV.of(y)
    x = SV.of(x)
    if not x.sym and not y.sym:
        return SV(math.atan2(y.c, x.c))
    r = (x * x + y * y).sqrt()
    if r == 0:
        return SV(0.0)
    c = x / r
    s = y / r
    a = _fresh_angle('atan2', c, s, -PI - rv(1e-9), PI + rv(1e-9))
    E = _E()
    E.defs += [z3.Implies(s.term() > 0, a.t > 0), z3.Implies(s.term() < 0, a.t < 0),
               z3.Implies(z3.And(s.term() == 0, c.term() > 0), a.t == 0)]
    return a
