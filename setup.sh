#!/bin/bash
# Build /verif/.venv: an overlay on /venv (which has optiland's deps) plus z3/cvc5/crosshair from the offline wheelhouse.
set -e
cd "$(dirname "$0")"
if [ -x .venv/bin/python ] && .venv/bin/python -c "import z3, numpy" 2>/dev/null; then exit 0; fi
rm -rf .venv
/venv/bin/python -m venv .venv
SP=$(.venv/bin/python -c "import site; print(site.getsitepackages()[0])")
echo "import site; site.addsitedir('/venv/lib/python3.12/site-packages')" > "$SP/_base.pth"
PIP_NO_INDEX=1 .venv/bin/pip install -q --no-index --find-links /opt/veriftools/wheels z3-solver cvc5 crosshair-tool >/dev/null 2>&1 || \
PIP_NO_INDEX=1 .venv/bin/pip install -q --no-index --find-links /opt/veriftools/wheels z3-solver
.venv/bin/python -c "import z3, numpy; print('venv ok', z3.get_version_string(), numpy.__version__)"
